#!/usr/bin/env python3
"""
pipeline.py -- harness.cpp --clang--> IR --strip std boundary--> opt --ll2c--> C --cbmc--> verdict

Everything is regenerated from /repo's working tree on every call; nothing is cached between runs.
"""
import os, re, subprocess, sys, time, json, shutil, resource, hashlib

HERE = os.path.dirname(os.path.abspath(__file__))
VERIF = os.path.dirname(HERE)
REPO = os.environ.get('VERIF_REPO', '/repo')
RT = os.path.join(VERIF, 'rt')
HARNESS = os.path.join(VERIF, 'harness')

CLANG = 'clang++-14'
OPT = 'opt-14'
GUARD = 'ROLLBEAR_TROMPELOEIL_VERIF'

# The std boundary: definitions with these mangled-name prefixes are cut to declarations and
# modelled in rt/rt.c (DESIGN.md section 4).  Everything else in std:: is translated.
STD_BOUNDARY = [
    '_ZNSt7__cxx1112basic_string', '_ZNKSt7__cxx1112basic_string', '_ZStplIc', '_ZSteqIc', '_ZStneIc',
    '_ZNSt8ios_base', '_ZNKSt8ios_base', '_ZNSt9basic_ios', '_ZNKSt9basic_ios',
    '_ZNSo', '_ZNKSo', '_ZStls', '_ZSt4endl', '_ZSt5flush',
    '_ZNSt7__cxx1119basic_ostringstream', '_ZNKSt7__cxx1119basic_ostringstream',
    '_ZNSt7__cxx1118basic_stringstream', '_ZNKSt7__cxx1118basic_stringstream',
    '_ZNSaIcE', '_ZNSt15recursive_mutex', '_ZSt4setw', '_ZSt7setfill', '_ZSt3hex', '_ZSt3dec', '_ZSt5right', '_ZSt4left',
    '_ZNSt11logic_error', '_ZNSt13runtime_error', '_ZNSt9exception', '_ZNKSt9exception',
    '_ZNSt7__cxx1111basic_regex', '_ZSt12regex_search', '_ZNSt7__cxx1112regex_traits',
    '_ZNSt11char_traitsIcE6length',
]


class MachineryFault(Exception):
    pass


def sh(cmd, timeout=None, cwd=None, env=None, mem_gb=None, stdin=None, register=None):
    def limits():
        if mem_gb:
            b = int(mem_gb * (1 << 30))
            resource.setrlimit(resource.RLIMIT_AS, (b, b))
        os.setsid()
    t0 = time.time()
    p = subprocess.Popen(cmd, stdout=subprocess.PIPE, stderr=subprocess.PIPE, cwd=cwd, env=env,
                         preexec_fn=limits, stdin=subprocess.DEVNULL if stdin is None else subprocess.PIPE)
    if register: register(p)
    try:
        out, err = p.communicate(input=stdin, timeout=timeout)
        to = False
    except subprocess.TimeoutExpired:
        try:
            os.killpg(p.pid, 9)
        except Exception:
            pass
        out, err = p.communicate()
        to = True
    return dict(rc=p.returncode, out=out.decode('utf-8', 'replace'), err=err.decode('utf-8', 'replace'),
                timeout=to, wall=time.time() - t0)


def defs_flags(defs):
    fl = []
    for k, v in (defs or {}).items():
        fl.append('-D%s=%s' % (k, v) if v is not None else '-D%s' % k)
    return fl


def build_ir(src, defs, std, wd, extra=(), lockinst=False):
    """clang -> strip -> opt. returns path of optimized .ll"""
    ll = os.path.join(wd, 'm.ll')
    cmd = [CLANG, '-std=' + std, '-O1', '-fno-inline', '-fno-vectorize', '-fno-slp-vectorize', '-fno-unroll-loops',
           '-fno-access-control', '-fno-pic', '-fno-PIE', '-fno-jump-tables', '-D' + GUARD, '-DVERIF_SYMBOLIC',
           '-I' + os.path.join(REPO, 'include'), '-I' + HARNESS, '-S', '-emit-llvm', '-Wno-everything',
           src, '-o', ll] + defs_flags(defs) + list(extra)
    r = sh(cmd, timeout=300)
    if r['rc'] != 0:
        raise BuildError('clang failed: ' + r['err'][-3000:])
    if lockinst:
        from . import lockinst as LI
        txt, n = LI.instrument(open(ll).read())
        if n == 0:
            raise MachineryFault('lock instrumentation matched no function')
        open(ll, 'w').write(txt)
    from . import stripstd
    sl = os.path.join(wd, 'm.strip.ll')
    nstrip = stripstd.strip(ll, sl, STD_BOUNDARY)
    ol = os.path.join(wd, 'm.opt.ll')
    r = sh([OPT, '-O1', '-S', sl, '-o', ol], timeout=300)
    if r['rc'] != 0:
        raise MachineryFault('opt failed: ' + r['err'][-3000:])
    return ol


class BuildError(Exception):
    """the harness does not compile against the current tree (reported as machinery fault, exit 2)"""


def translate(ll, out_c, entry='harness', instrument=False):
    from . import ll2c, llparse
    M = llparse.parse_module(open(ll).read())
    entries = ['@' + entry] + [h for h in ('@verif_on_acquire',) if h in M.funcs]     # hooks the runtime model calls
    E = ll2c.Emitter(M, entries, [p for p in STD_BOUNDARY])
    E.instrument = instrument
    code = E.run()
    open(out_c, 'w').write(code)
    fns = [n[1:] for n in E.fn_done]
    exts = [n[1:] for n in E.ext_used]
    return fns, exts


def demangle(names):
    if not names:
        return []
    r = sh(['c++filt'], stdin=('\n'.join(names)).encode())
    return r['out'].split('\n')[:len(names)]


PROP_RE = re.compile(r'^\[(?P<name>[^\]]+)\] (?P<desc>.*): (?P<res>SUCCESS|FAILURE|UNKNOWN|ERROR)$', re.M)


def run_cbmc(cfiles, unwind, timeout, mem_gb=12, checks=True, trace_property=None, extra=(), wd=None, defs=None, _register=None):
    cmd = ['cbmc'] + list(cfiles) + ['-I' + RT, '--unwind', str(unwind), '--unwinding-assertions',
                                    '--no-malloc-may-fail', '--drop-unused-functions', '--object-bits', '12', '--slice-formula', '--unwindset', 'vf_streq.0:50,x_strcmp.0:66']
    if not checks:
        cmd.append('--no-standard-checks')
    else:
        cmd += ['--pointer-check']
    cmd += defs_flags(defs)
    if trace_property:
        # the counterexample run keeps the whole formula: slicing drops the nondet values the property does not depend
        # on, and the native replay needs every verif_nondet_* value in call order
        cmd = [c for c in cmd if c != '--slice-formula']
        cmd += ['--trace', '--property', trace_property]
    cmd += list(extra)
    r = sh(cmd, timeout=timeout, mem_gb=mem_gb, cwd=wd, register=_register)
    r['cmd'] = ' '.join(cmd)
    return r


def run_cbmc_portfolio(cfiles, unwind, timeout, variants=((), ('--sat-solver', 'cadical')), **kw):
    """the same query under several SAT back ends in parallel; the first back end that returns a verdict wins
    (the formula is identical, only the decision procedure differs), the others are killed"""
    import threading
    results = [None] * len(variants)
    procs = {}
    done = threading.Event()
    extra0 = tuple(kw.pop('extra', ()))

    def work(i, v):
        r = run_cbmc(cfiles, unwind, timeout, extra=extra0 + tuple(v), _register=lambda p: procs.__setitem__(i, p), **kw)
        r['backend'] = ' '.join(v) or 'default (minisat2)'
        results[i] = r
        if not r['timeout'] and ('VERIFICATION SUCCESSFUL' in r['out'] or 'VERIFICATION FAILED' in r['out']):
            done.set()
    ts = [threading.Thread(target=work, args=(i, v)) for i, v in enumerate(variants)]
    for t in ts: t.start()
    while any(t.is_alive() for t in ts) and not done.is_set():
        done.wait(0.5)
    for i, p_ in list(procs.items()):
        if p_.poll() is None:
            try: os.killpg(p_.pid, 9)
            except Exception: pass
    for t in ts: t.join()
    good = [r for r in results if r and not r['timeout'] and ('VERIFICATION SUCCESSFUL' in r['out'] or 'VERIFICATION FAILED' in r['out'])]
    if good:
        return min(good, key=lambda r: r['wall'])
    return results[0]


def parse_cbmc(r):
    """returns dict(status, props{name:(desc,res)}, nobody[list])"""
    out = r['out']
    res = dict(props={}, nobody=[], status=None, solver_s=None)
    if r['timeout']:
        res['status'] = 'TIMEOUT'
        return res
    for m in PROP_RE.finditer(out):
        res['props'][m.group('name')] = (m.group('desc'), m.group('res'))
    res['nobody'] = re.findall(r'no body for (?:function|callee) ([^\s:]+)', out + r['err'])
    m = re.search(r'Runtime Solver: ([0-9.e+-]+)s', out)
    ts = re.findall(r'Runtime (?:Solver|decision procedure): ([0-9.e+-]+)s', out)
    if ts:
        res['solver_s'] = sum(float(x) for x in ts)
    if 'VERIFICATION SUCCESSFUL' in out:
        res['status'] = 'SUCCESS'
    elif 'VERIFICATION FAILED' in out:
        res['status'] = 'FAILED'
    else:
        res['status'] = 'ERROR'
    return res


def trace_values(out):
    """values of verif_nondet_* calls in call order, read from the trace (the nondet_uNN() return values, by state order)"""
    return [int(m.group(1)) for m in re.finditer(r'^\s*return_value_nondet_u(?:8|32|64)=(\d+)', out, re.M)]


def build_native(src, defs, std, wd, sanitize=False, out='native'):
    exe = os.path.join(wd, out)
    cmd = ['g++', '-std=' + std, '-O0', '-g', '-fno-access-control', '-w', '-D' + GUARD, '-DVERIF_NATIVE',
           '-I' + os.path.join(REPO, 'include'), '-I' + HARNESS, src, os.path.join(RT, 'native.cpp'),
           '-o', exe, '-pthread'] + defs_flags(defs)
    if sanitize:
        cmd += ['-fsanitize=address,undefined', '-fno-sanitize-recover=undefined', '-fno-omit-frame-pointer']
    r = sh(cmd, timeout=600)
    if r['rc'] != 0:
        raise BuildError('g++ failed: ' + r['err'][-3000:])
    return exe


def run_native(exe, values, timeout=60):
    env = dict(os.environ)
    env['VERIF_REPLAY_VALUES'] = ','.join(str(v) for v in values)
    env['ASAN_OPTIONS'] = 'detect_leaks=1:abort_on_error=0:exitcode=99'
    env['UBSAN_OPTIONS'] = 'halt_on_error=1:exitcode=98'
    return sh([exe], timeout=timeout, env=env)


def build_concrete(cfile, wd, rtdefs=None, out='concrete'):
    """generated C + rt.c compiled with gcc in concrete mode (translation validation of ll2c)"""
    exe = os.path.join(wd, out)
    r = sh(['gcc', '-O0', '-g', '-w', '-I' + RT, cfile, os.path.join(RT, 'rt.c'), '-o', exe] + defs_flags(rtdefs), timeout=600)
    if r['rc'] != 0:
        raise MachineryFault('gcc on generated C failed: ' + r['err'][-3000:])
    return exe
