#!/usr/bin/env python3
"""
ll2ct.py -- prototype typed LLVM-14 IR -> C translator for CBMC.
Every LLVM struct type becomes a C struct with identical layout, pointers stay typed,
so that CBMC keeps pointer provenance for pointer-typed fields.
Externals / stubbed functions get the uniform ABI "all pointers are P (unsigned char*)".
"""
import re, sys, collections
from .llparse import *


WELL_KNOWN_GLOBALS = ['@_ZTISt11logic_error', '@_ZTISt9exception', '@_ZTISt13runtime_error',
                      '@_ZTVN10__cxxabiv120__si_class_type_infoE']
# vtables of libstdc++ exception classes whose constructors are modelled in rt.c: [D1, D0, what]
EXTERNAL_VTABLES = {
    '@_ZTVSt11logic_error': ['@_ZNSt11logic_errorD1Ev', '@_ZNSt11logic_errorD0Ev', '@_ZNKSt11logic_error4whatEv'],
    '@_ZTVSt9exception': ['@_ZNSt9exceptionD1Ev', '@_ZNSt9exceptionD0Ev', '@_ZNKSt9exception4whatEv'],
}


class Emitter:
    def __init__(self, M, entries, stubbed_prefixes=()):
        self.M = M
        self.entries = entries
        self.aggs = collections.OrderedDict()   # key -> (cname, ty)
        self.named_used = collections.OrderedDict()
        self.ext_used = collections.OrderedDict()
        self.stubbed = stubbed_prefixes
        self.new_types = collections.OrderedDict()

    # ---------------- types
    def rs(self, t):
        return self.M.resolve(t) if isinstance(t, NamedTy) else t

    def cty(self, t):
        M = self.M
        if isinstance(t, NamedTy):
            self.named_used[t.name] = True
            return 'struct n_' + cid(t.name)
        if isinstance(t, IntTy):
            if t.bits == 1: return 'uint8_t'
            b = M.sizeof(t) * 8
            if b > 64: raise TypeError('int too wide')
            return 'uint%d_t' % b
        if isinstance(t, PtrTy):
            to = t.to
            if isinstance(to, FnTy): return 'FP'
            if isinstance(to, OtherTy): return 'P'
            if isinstance(to, NamedTy) and M.types.get(to.name) is None:
                self.named_used[to.name] = True
                return 'struct n_%s*' % cid(to.name)
            return self.cty(to) + '*'
        if isinstance(t, VoidTy): return 'void'
        if isinstance(t, (StructTy, ArrTy)):
            key = repr(t) + ('P' if getattr(t, 'packed', False) else '')
            if key not in self.aggs:
                self.aggs[key] = ('a_%d' % len(self.aggs), t)
                # make sure nested are registered
                if isinstance(t, StructTy):
                    for f in t.fields: self.cty(f)
                else:
                    self.cty(t.el)
            return 'struct ' + self.aggs[key][0]
        if isinstance(t, FloatTy):
            return {'float': 'float', 'double': 'double'}.get(t.name, 'long double')
        if isinstance(t, FnTy): return 'void'
        raise TypeError('cty %r' % (t,))

    def is_agg(self, t):
        t = self.rs(t)
        return isinstance(t, (StructTy, ArrTy))

    def signed(self, t):
        return 'int%d_t' % (self.M.sizeof(t) * 8)

    def is_ptr(self, t):
        return isinstance(self.rs(t), PtrTy)

    # ---------------- values
    def is_stubbed(self, n):
        return any(cid(n).startswith(p) for p in self.stubbed)

    def fn_addr(self, n):
        M = self.M
        if n in M.funcs and not self.is_stubbed(n):
            self.need_fn(n)
            return '((FP)&f_%s)' % cid(n)
        self.use_ext(n)
        return '((FP)&x_%s)' % cid(n)

    def use_ext(self, n):
        M = self.M
        if n not in self.ext_used:
            fty = M.decls.get(n)
            if fty is None:
                F = M.funcs[n]
                fty = FnTy(F.ret, [p[0] for p in F.params], False)
            self.ext_used[n] = fty
        return self.ext_used[n]

    def val(self, v, t):
        """C expression of LLVM value v having LLVM type t; result has C type cty(t)"""
        M = self.M
        if isinstance(v, Local): return 'v_' + cid(v.n)
        if isinstance(v, Glob):
            n = v.n
            if n in M.funcs or n in M.decls:
                e = self.fn_addr(n)
                ct = self.cty(t)
                return e if ct == 'FP' else '((%s)%s)' % (ct, e)
            self.need_glob(n)
            gty = M.globals[n][0]
            ct = self.cty(t)
            return '((%s)&g_%s)' % (ct, cid(n))
        if isinstance(v, CInt):
            rt = self.rs(t)
            if isinstance(rt, IntTy):
                bits = rt.bits
                x = v.v & ((1 << bits) - 1)
                if bits == 1: return str(x)
                return '((%s)%dULL)' % (self.cty(rt), x)
            return str(v.v)
        if isinstance(v, CNull): return '((%s)0)' % self.cty(t)
        if isinstance(v, (CUndef, CZero)):
            if self.is_agg(t): return '(%s){0}' % self.cty(t)
            if self.is_ptr(t): return '((%s)0)' % self.cty(t)
            return '0'
        if isinstance(v, CExpr):
            if v.op == 'gep':
                (pt, pv) = v.args[0]
                return '((%s)%s)' % (self.cty(t), self.gep_expr(v.extra, self.val(pv, pt), v.args[1:]))
            if v.op in ('bitcast', 'addrspacecast'):
                return '((%s)%s)' % (self.cty(t), self.val(v.args[0][1], v.args[0][0]))
            if v.op == 'ptrtoint':
                return '((%s)(uintptr_t)%s)' % (self.cty(v.extra), self.val(v.args[0][1], v.args[0][0]))
            if v.op == 'inttoptr':
                return '((%s)(uintptr_t)%s)' % (self.cty(t), self.val(v.args[0][1], v.args[0][0]))
            if v.op in ('add', 'sub', 'mul', 'and', 'or', 'xor'):
                o = {'add': '+', 'sub': '-', 'mul': '*', 'and': '&', 'or': '|', 'xor': '^'}[v.op]
                t0 = v.args[0][0]
                return '((%s)(%s %s %s))' % (self.cty(t0), self.val(v.args[0][1], t0), o, self.val(v.args[1][1], t0))
            if v.op == 'icmp':
                t0 = v.args[0][0]
                return self.icmp_expr(v.extra, t0, self.val(v.args[0][1], t0), self.val(v.args[1][1], t0))
            if v.op in ('trunc', 'zext'):
                return '((%s)%s)' % (self.cty(v.extra), self.val(v.args[0][1], v.args[0][0]))
            if v.op == 'select':
                return '(%s ? %s : %s)' % tuple(self.val(a[1], a[0]) for a in v.args)
        raise TypeError('val %r of %r' % (v.__class__.__name__, t))

    def gep_expr(self, base, pexpr, idx):
        """returns C expression (pointer, arbitrary pointer type) for the GEP"""
        M = self.M
        cur = base
        (it0, iv0) = idx[0]
        bct = self.cty(base) if not isinstance(base, FnTy) else None
        rb = self.rs(base)
        if isinstance(rb, IntTy) and rb.bits == 8 or bct is None:
            e = '((uint8_t*)%s)' % pexpr
            bct = 'uint8_t'
        else:
            e = '((%s*)%s)' % (bct, pexpr)
        if isinstance(iv0, CInt):
            lv = '(*%s)' % e if iv0.v == 0 else '%s[%d]' % (e, iv0.v)
        else:
            lv = '%s[(int64_t)(%s)%s]' % (e, self.signed(it0), self.val(iv0, it0))
        for (it, iv) in idx[1:]:
            rt = self.rs(cur)
            if isinstance(rt, StructTy):
                assert isinstance(iv, CInt)
                lv += '.f%d' % iv.v
                cur = rt.fields[iv.v]
            elif isinstance(rt, ArrTy):
                if isinstance(iv, CInt): lv += '.e[%d]' % iv.v
                else: lv += '.e[(int64_t)(%s)%s]' % (self.signed(it), self.val(iv, it))
                cur = rt.el
            else:
                raise TypeError('gep into %r' % (rt,))
        return '(&%s)' % lv

    def icmp_expr(self, pred, t, a, b):
        rt = self.rs(t)
        if isinstance(rt, PtrTy):
            if pred in ('eq', 'ne'):
                return '((P)%s %s (P)%s)' % (a, '==' if pred == 'eq' else '!=', b)
            o = {'gt': '>', 'ge': '>=', 'lt': '<', 'le': '<='}[pred[1:]]
            return '((uintptr_t)%s %s (uintptr_t)%s)' % (a, o, b)
        if pred in ('eq', 'ne'):
            return '(%s %s %s)' % (a, '==' if pred == 'eq' else '!=', b)
        o = {'gt': '>', 'ge': '>=', 'lt': '<', 'le': '<='}[pred[1:]]
        if pred[0] == 's':
            st = self.signed(rt)
            if rt.bits not in (8, 16, 32, 64):
                sh = self.M.sizeof(rt) * 8 - rt.bits
                return '((%s)(%s << %d) %s (%s)(%s << %d))' % (st, a, sh, o, st, b, sh)
            return '((%s)%s %s (%s)%s)' % (st, a, o, st, b)
        return '(%s %s %s)' % (a, o, b)

    # ---------------- bookkeeping
    def need_fn(self, n):
        if n not in self.fn_done and n not in self.fn_queue:
            self.fn_queue.append(n)

    def need_glob(self, n):
        if n not in self.glob_need:
            self.glob_need[n] = True
            self.glob_queue.append(n)

    def fn_sig(self, name, ret, ptys, prefix):
        r = self.cty(ret)
        ps = ', '.join('%s a%d' % (self.cty(t), i) for i, t in enumerate(ptys)) or 'void'
        return '%s %s%s(%s)' % (r, prefix, cid(name), ps)

    def ext_cty(self, t):
        return 'P' if self.is_ptr(t) else self.cty(t)

    def ext_sig(self, name, fty):
        r = self.ext_cty(fty.ret)
        ps = ', '.join('%s a%d' % (self.ext_cty(t), i) for i, t in enumerate(fty.args)) or 'void'
        return '%s x_%s(%s)' % (r, cid(name), ps)

    # ---------------- functions
    def emit_function(self, F):
        M = self.M
        o = []
        ptys = [p[0] for p in F.params]
        o.append(self.fn_sig(F.name, F.ret, ptys, 'f_') + ' {')
        decls = collections.OrderedDict()
        body = []
        for i, (t, pn, byval) in enumerate(F.params):
            decls['v_' + cid(pn)] = self.cty(t)
            if byval:
                et = self.rs(t).to
                decls['bv_' + cid(pn)] = self.cty(et)
                body.append('  bv_%s = *a%d; v_%s = &bv_%s;' % (cid(pn), i, cid(pn), cid(pn)))
            else:
                body.append('  v_%s = a%d;' % (cid(pn), i))
        isvoid = isinstance(F.ret, VoidTy)
        if isvoid: dummy_ret = 'return;'
        elif self.is_agg(F.ret): dummy_ret = 'return (%s){0};' % self.cty(F.ret)
        else: dummy_ret = 'return 0;'
        phis = {}
        lp_of = {}
        defs = {}
        for bl, insts in F.blocks.items():
            for ins in insts:
                if ins.op == 'phi': phis.setdefault(bl, []).append(ins)
                if ins.op == 'landingpad': lp_of[bl] = ins
                if ins.res is not None: defs[ins.res] = ins
        self.cur_defs = defs
        self.cur_blocks = F.blocks
        self.cur_fname = F.name

        def edge(frm, to):
            cs = []
            ps = phis.get(to, [])
            if ps:
                tmp = []
                for p in ps:
                    for (v, l) in p.inc:
                        if l == frm:
                            tmp.append((p, v)); break
                    else:
                        raise KeyError('phi %s in %s has no incoming from %s' % (p.res, to, frm))
                if len(tmp) == 1:
                    p, v = tmp[0]
                    cs.append('v_%s = %s;' % (cid(p.res), self.val(v, p.ty)))
                else:
                    for p, v in tmp: cs.append('t_%s = %s;' % (cid(p.res), self.val(v, p.ty)))
                    for p, v in tmp: cs.append('v_%s = t_%s;' % (cid(p.res), cid(p.res)))
            cs.append('goto L_%s;' % cid(to))
            return ' '.join(cs)

        def unwind_code(frm, lpad_label):
            lp = lp_of[lpad_label]
            conds = []
            if lp.cleanup: conds.append('1')
            for kind, cv in lp.clauses:
                if kind == 'catch' and not isinstance(cv, CNull):
                    conds.append('__vf_exc_match((P)%s)' % self.val(cv, PtrTy(IntTy(8))))
                else:
                    conds.append('1')
            c = ' || '.join(conds) or '0'
            if '1' in conds:
                return 'if (__vf_exc_pending) { %s }' % edge(frm, lpad_label)
            return 'if (__vf_exc_pending) { if (%s) { %s } else { %s } }' % (c, edge(frm, lpad_label), dummy_ret)

        for bl, insts in F.blocks.items():
            body.append('L_%s: ;' % cid(bl))
            for ins in insts:
                op = ins.op
                r = 'v_' + cid(ins.res) if ins.res is not None else None
                if op == 'phi':
                    decls[r] = self.cty(ins.ty)
                    decls['t_' + cid(ins.res)] = self.cty(ins.ty)
                elif op == 'alloca':
                    ct = self.cty(ins.ty)
                    cnt = 1
                    if ins.cnt is not None:
                        assert isinstance(ins.cnt[1], CInt)
                        cnt = ins.cnt[1].v
                    decls['m_' + cid(ins.res)] = ('ALLOCA', ct, cnt, ins.align)
                    decls[r] = ct + '*'
                    body.append('  %s = %sm_%s;' % (r, '' if cnt > 1 else '&', cid(ins.res)))
                elif op == 'load':
                    ct = self.cty(ins.ty)
                    decls[r] = ct
                    body.append('  %s = *(%s*)%s;' % (r, ct, self.val(ins.ptr, PtrTy(ins.ty))))
                elif op == 'store':
                    ct = self.cty(ins.ty)
                    body.append('  *(%s*)%s = %s;' % (ct, self.val(ins.ptr, PtrTy(ins.ty)), self.val(ins.val, ins.ty)))
                elif op == 'gep':
                    # result type: pointer to final element type
                    rty = self.gep_result_type(ins.base, ins.idx)
                    ct = self.cty(PtrTy(rty))
                    decls[r] = ct
                    body.append('  %s = (%s)%s;' % (r, ct, self.gep_expr(ins.base, self.val(ins.ptr, PtrTy(ins.base)), ins.idx)))
                elif op == 'cast':
                    ct = self.cty(ins.tty)
                    decls[r] = ct
                    src = self.val(ins.val, ins.fty)
                    k = ins.kind
                    if k == 'bitcast' and isinstance(self.rs(ins.fty), FloatTy) != isinstance(self.rs(ins.tty), FloatTy):
                        e = 'vf_bits_%s(%s)' % (ct.replace(' ', '_'), src)       # same bits, other interpretation (rt.h)
                    elif k in ('bitcast', 'addrspacecast'): e = '(%s)%s' % (ct, src)
                    elif k == 'ptrtoint': e = '(%s)(uintptr_t)%s' % (ct, src)
                    elif k == 'inttoptr': e = '(%s)(uintptr_t)%s' % (ct, src)
                    elif k == 'zext': e = '(%s)%s' % (ct, src)
                    elif k == 'trunc':
                        rt = self.rs(ins.tty)
                        e = '(%s)%s' % (ct, src)
                        if rt.bits not in (8, 16, 32, 64): e = '(%s)(%s & %dULL)' % (ct, src, (1 << rt.bits) - 1)
                    elif k == 'sext':
                        ft = self.rs(ins.fty)
                        if ft.bits == 1: e = '(%s)(%s ? -1 : 0)' % (ct, src)
                        else: e = '(%s)(%s)(%s)%s' % (ct, self.signed(ins.tty), self.signed(ft), src)
                    elif k == 'sitofp': e = '(%s)(%s)%s' % (ct, self.signed(self.rs(ins.fty)), src)
                    elif k == 'uitofp': e = '(%s)%s' % (ct, src)
                    elif k == 'fptosi': e = '(%s)(%s)%s' % (ct, self.signed(self.rs(ins.tty)), src)
                    elif k in ('fptoui', 'fpext', 'fptrunc'): e = '(%s)%s' % (ct, src)
                    else:
                        raise TypeError('cast ' + k)
                    body.append('  %s = %s;' % (r, e))
                elif op == 'bin':
                    ct = self.cty(ins.ty)
                    decls[r] = ct
                    a = self.val(ins.a, ins.ty); b = self.val(ins.b, ins.ty)
                    k = ins.kind
                    rt = self.rs(ins.ty)
                    st = self.signed(rt)
                    if k in ('add', 'sub', 'mul', 'and', 'or', 'xor', 'udiv', 'urem'):
                        o_ = {'add': '+', 'sub': '-', 'mul': '*', 'and': '&', 'or': '|', 'xor': '^', 'udiv': '/', 'urem': '%'}[k]
                        e = '(%s)(%s %s %s)' % (ct, a, o_, b)
                    elif k == 'shl': e = '(%s)((uint64_t)%s << %s)' % (ct, a, b)
                    elif k == 'lshr': e = '(%s)(%s >> %s)' % (ct, a, b)
                    elif k == 'ashr': e = '(%s)((%s)%s >> %s)' % (ct, st, a, b)
                    elif k == 'sdiv': e = '(%s)((%s)%s / (%s)%s)' % (ct, st, a, st, b)
                    elif k == 'srem': e = '(%s)((%s)%s %% (%s)%s)' % (ct, st, a, st, b)
                    if rt.bits == 1: e = '(%s & 1)' % e
                    body.append('  %s = %s;' % (r, e))
                elif op == 'icmp':
                    decls[r] = 'uint8_t'
                    body.append('  %s = %s;' % (r, self.icmp_expr(ins.pred, ins.ty, self.val(ins.a, ins.ty), self.val(ins.b, ins.ty))))
                elif op == 'fcmp':
                    # IEEE comparisons: C's relational operators are the ordered ones (false when either side is NaN)
                    decls[r] = 'uint8_t'
                    a, b = self.val(ins.a, ins.ty), self.val(ins.b, ins.ty)
                    E = {'oeq': '(%s == %s)', 'ogt': '(%s > %s)', 'oge': '(%s >= %s)', 'olt': '(%s < %s)', 'ole': '(%s <= %s)',
                         'one': '(%s < %s || %s > %s)', 'ord': '(%s == %s && %s == %s)',
                         'ueq': '!(%s < %s || %s > %s)', 'ugt': '!(%s <= %s)', 'uge': '!(%s < %s)', 'ult': '!(%s >= %s)', 'ule': '!(%s > %s)',
                         'une': '(%s != %s)', 'uno': '(%s != %s || %s != %s)', 'true': '1', 'false': '0'}[ins.pred]
                    if ins.pred in ('one', 'ueq'): e = E % (a, b, a, b)
                    elif ins.pred in ('ord', 'uno'): e = E % (a, a, b, b)
                    elif ins.pred in ('true', 'false'): e = E
                    else: e = E % (a, b)
                    body.append('  %s = (uint8_t)%s;' % (r, e))
                elif op == 'select':
                    decls[r] = self.cty(ins.ty)
                    body.append('  %s = %s ? %s : %s;' % (r, self.val(ins.c, IntTy(1)), self.val(ins.a, ins.ty), self.val(ins.b, ins.ty)))
                elif op in ('extractvalue', 'insertvalue'):
                    cur = ins.ty; path = ''
                    for ix in ins.idx:
                        cur = self.rs(cur)
                        if isinstance(cur, StructTy): path += '.f%d' % ix; cur = cur.fields[ix]
                        else: path += '.e[%d]' % ix; cur = cur.el
                    if op == 'extractvalue':
                        decls[r] = self.cty(cur)
                        body.append('  %s = %s%s;' % (r, self.val(ins.val, ins.ty), path))
                    else:
                        decls[r] = self.cty(ins.ty)
                        body.append('  %s = %s; %s%s = %s;' % (r, self.val(ins.val, ins.ty), r, path, self.val(ins.ev, ins.ety)))
                elif op == 'landingpad':
                    decls[r] = self.cty(ins.ty)
                    sel = '0'
                    for kind, cv in reversed(ins.clauses):
                        if kind == 'catch':
                            if isinstance(cv, CNull): sel = '1'
                            else:
                                tiv = '(P)' + self.val(cv, PtrTy(IntTy(8)))
                                sel = '(__vf_exc_match(%s) ? __vf_typeid(%s) : %s)' % (tiv, tiv, sel)
                        else:
                            sel = '(-1)'
                    body.append('  %s.f0 = __vf_exc_ptr; %s.f1 = (uint32_t)%s; __vf_exc_pending = 0;' % (r, r, sel))
                elif op == 'resume':
                    body.append('  __vf_exc_pending = 1; %s' % dummy_ret)
                elif op == 'atomicrmw':
                    ct = self.cty(ins.ty)
                    decls[r] = ct
                    p = '(%s*)%s' % (ct, self.val(ins.ptr, PtrTy(ins.ty))); v = self.val(ins.val, ins.ty)
                    o_ = {'add': '+', 'sub': '-', 'and': '&', 'or': '|', 'xor': '^'}.get(ins.kind)
                    if ins.kind == 'xchg':
                        body.append('  %s = *%s; *%s = %s;' % (r, p, p, v))
                    else:
                        body.append('  %s = *%s; *%s = (%s)(%s %s %s);' % (r, p, p, ct, r, o_, v))
                elif op == 'cmpxchg':
                    ct = self.cty(ins.ty)
                    at = self.cty(StructTy([ins.ty, IntTy(1)]))
                    decls[r] = at
                    p = '(%s*)%s' % (ct, self.val(ins.ptr, PtrTy(ins.ty)))
                    body.append('  %s.f0 = *%s; %s.f1 = (%s.f0 == %s); if (%s.f1) *%s = %s;' % (r, p, r, r, self.val(ins.cmp, ins.ty), r, p, self.val(ins.new, ins.ty)))
                elif op == 'nop':
                    pass
                elif op == 'ret':
                    if ins.val is None: body.append('  return;')
                    else: body.append('  return %s;' % self.val(ins.val, ins.ty))
                elif op == 'br':
                    if ins.cond is None: body.append('  ' + edge(bl, ins.t))
                    else: body.append('  if (%s) { %s } else { %s }' % (self.val(ins.cond, IntTy(1)), edge(bl, ins.t), edge(bl, ins.f)))
                elif op == 'switch':
                    s_ = '  switch (%s) {' % self.val(ins.val, ins.ty)
                    for cv, cl in ins.cases:
                        s_ += ' case %s: { %s }' % (self.val(cv, ins.ty), edge(bl, cl))
                    s_ += ' default: { %s } }' % edge(bl, ins.default)
                    body.append(s_)
                elif op == 'unreachable':
                    body.append('  __vf_unreachable(); ' + dummy_ret)
                elif op in ('call', 'invoke'):
                    code = self.emit_call(ins, decls, insts)
                    if code is not None:
                        body.append('  ' + code)
                        if op == 'invoke':
                            body.append('  ' + unwind_code(bl, ins.unwind))
                            body.append('  ' + edge(bl, ins.normal))
                        elif not self.call_nothrow(ins):
                            body.append('  if (__vf_exc_pending) { %s }' % dummy_ret)
                    elif op == 'invoke':
                        body.append('  ' + edge(bl, ins.normal))
                else:
                    raise TypeError('emit op ' + op)
        for n, ct in decls.items():
            if isinstance(ct, tuple):
                _, t, cnt, al = ct
                o.append('  %s %s%s __attribute__((aligned(%d)));' % (t, n, '[%d]' % cnt if cnt > 1 else '', max(al, 1)))
            else:
                o.append('  %s %s;' % (ct, n))
        o.extend(body)
        o.append('}')
        return '\n'.join(o)

    def gep_result_type(self, base, idx):
        cur = base
        for (it, iv) in idx[1:]:
            rt = self.rs(cur)
            if isinstance(rt, StructTy): cur = rt.fields[iv.v]
            elif isinstance(rt, ArrTy): cur = rt.el
            else: raise TypeError('gep')
        return cur

    NOTHROW = set('''strlen memcmp pthread_mutex_lock pthread_mutex_unlock __cxa_begin_catch __cxa_end_catch
      __cxa_guard_acquire __cxa_guard_release __cxa_allocate_exception __cxa_free_exception _Znwm _ZdlPv _ZdlPvm
      malloc free verif_assume verif_assert'''.split())

    def call_nothrow(self, ins):
        c = ins.callee
        if isinstance(c, Glob):
            n = c.n[1:]
            if n.startswith('llvm.') or n.startswith('verif_nondet') or n in self.NOTHROW: return True
            if c.n in self.M.nounwind: return True
        m = re.search(r'#(\d+)\s*$', ins.src)
        if m and int(m.group(1)) in self.M.nounwind_groups: return True
        return False

    def mem_type_of(self, v):
        """if v is a Local defined by a bitcast from T* in this function, return T"""
        if isinstance(v, Local):
            d = self.cur_defs.get(v.n)
            if d is not None and d.op == 'cast' and d.kind == 'bitcast':
                ft = self.rs(d.fty)
                if isinstance(ft, PtrTy): return ft.to
            if d is not None and d.op == 'gep':
                return None
        return None

    def leaves_for(self, t, n):
        """scalar leaves [(offset, ctype)] exactly covering n bytes of type t, or None"""
        if t is None or isinstance(t, (FnTy, OtherTy)): return None
        M = self.M
        out = []

        def rec(t, off):
            rt = self.rs(t)
            if isinstance(rt, StructTy):
                offs, _ = M.struct_layout(rt)
                for f, o_ in zip(rt.fields, offs): rec(f, off + o_)
            elif isinstance(rt, ArrTy):
                sz = M.sizeof(rt.el)
                for i in range(rt.n): rec(rt.el, off + i * sz)
            else:
                out.append((off, self.cty(rt), M.sizeof(rt)))
        try:
            if M.sizeof(t) != n: return None
            rec(t, 0)
        except Exception:
            return None
        # must tile without gaps that matter (padding is fine to skip)
        return [(o_, ct) for o_, ct, sz in out]

    def emit_call(self, ins, decls, block_insts):
        M = self.M
        c = ins.callee
        res = None
        if ins.res is not None and not isinstance(ins.ret, VoidTy):
            res = 'v_' + cid(ins.res)
            decls[res] = self.cty(ins.ret)
        lhs = (res + ' = ') if res else ''
        if isinstance(c, Glob):
            n = c.n
            bare = n[1:]
            if bare.startswith('llvm.'):
                args = [self.val(v, t) if not (isinstance(t, OtherTy)) else '0' for t, v in ins.args]
                if bare.startswith(('llvm.lifetime', 'llvm.dbg', 'llvm.experimental.noalias', 'llvm.assume', 'llvm.invariant', 'llvm.stacksave', 'llvm.stackrestore', 'llvm.prefetch')):
                    return None if not res else lhs + '0;'
                if bare.startswith('llvm.memcpy') or bare.startswith('llvm.memmove'):
                    n_ = ins.args[2][1]
                    ta = self.mem_type_of(ins.args[0][1]); tb = self.mem_type_of(ins.args[1][1])
                    if isinstance(n_, CInt):
                        for tt in (ta, tb):
                            if tt is not None and not isinstance(tt, (FnTy, OtherTy)) and M.sizeof(tt) == n_.v:
                                ct = self.cty(tt)
                                return '*(%s*)%s = *(%s*)%s;' % (ct, args[0], ct, args[1])
                    if isinstance(n_, CInt) and n_.v <= 256:
                        lv = self.leaves_for(ta, n_.v) or self.leaves_for(tb, n_.v)
                        if lv is None and n_.v % 8 == 0:
                            lv = [(o_, 'uint64_t') for o_ in range(0, n_.v, 8)]
                        if lv is not None and bare.startswith('llvm.memmove'):
                            # the ranges may overlap: read everything first, then write (a forward element-wise copy is wrong when dst > src)
                            rd = ' '.join('%s __mm%d = *(%s*)((P)%s + %d);' % (ct, k_, ct, args[1], o_) for k_, (o_, ct) in enumerate(lv))
                            wr = ' '.join('*(%s*)((P)%s + %d) = __mm%d;' % (ct, args[0], o_, k_) for k_, (o_, ct) in enumerate(lv))
                            return '{ %s %s }' % (rd, wr)
                        if lv is not None:
                            return ' '.join('*(%s*)((P)%s + %d) = *(%s*)((P)%s + %d);' % (ct, args[0], o_, ct, args[1], o_) for o_, ct in lv)
                    return '__vf_memcpy((P)%s, (P)%s, %s);' % (args[0], args[1], args[2])
                if bare.startswith('llvm.memset'):
                    n_ = ins.args[2][1]; cv = ins.args[1][1]
                    ta = self.mem_type_of(ins.args[0][1])
                    if isinstance(n_, CInt) and isinstance(cv, CInt) and cv.v == 0 and ta is not None and M.sizeof(ta) == n_.v:
                        ct = self.cty(ta)
                        return '*(%s*)%s = (%s){0};' % (ct, args[0], ct) if self.is_agg(ta) else '*(%s*)%s = 0;' % (ct, args[0])
                    if isinstance(n_, CInt) and isinstance(cv, CInt) and cv.v == 0 and n_.v <= 256:
                        lv = self.leaves_for(ta, n_.v)
                        if lv is None and n_.v % 8 == 0:
                            lv = [(o_, 'uint64_t') for o_ in range(0, n_.v, 8)]
                        if lv is not None:
                            return ' '.join('*(%s*)((P)%s + %d) = 0;' % (ct, args[0], o_) for o_, ct in lv)
                    return '__vf_memset((P)%s, %s, %s);' % (args[0], args[1], args[2])
                if bare.startswith('llvm.eh.typeid.for'):
                    return lhs + '__vf_typeid((P)%s);' % args[0]
                if bare.startswith('llvm.trap'):
                    return '__vf_abort();'
                if bare.startswith('llvm.expect'):
                    return lhs + args[0] + ';'
                m = re.match(r'llvm\.(umax|umin|smax|smin)\.i(\d+)', bare)
                if m:
                    k = m.group(1)
                    cast = '(%s)' % self.signed(ins.ret) if k[0] == 's' else ''
                    o_ = '>' if k.endswith('max') else '<'
                    return lhs + '(%s%s %s %s%s) ? %s : %s;' % (cast, args[0], o_, cast, args[1], args[0], args[1])
                m = re.match(r'llvm\.(fshl|fshr)\.i(\d+)', bare)
                if m:
                    bits = int(m.group(2)); ct = self.cty(ins.ret)
                    sh = '(%s %% %du)' % (args[2], bits)
                    if m.group(1) == 'fshl':
                        return lhs + '(%s)(%s == 0 ? %s : ((%s << %s) | (%s >> (%du - %s))));' % (ct, sh, args[0], args[0], sh, args[1], bits, sh)
                    return lhs + '(%s)(%s == 0 ? %s : ((%s >> %s) | (%s << (%du - %s))));' % (ct, sh, args[1], args[1], sh, args[0], bits, sh)
                m = re.match(r'llvm\.(bswap|ctpop|ctlz|cttz|abs)\.', bare)
                if m and m.group(1) == 'abs':
                    st = self.signed(ins.ret)
                    return lhs + '(%s)((%s)%s < 0 ? -(%s)%s : (%s)%s);' % (self.cty(ins.ret), st, args[0], st, args[0], st, args[0])
                if bare.startswith('llvm.objectsize'): return lhs + '(%s)-1;' % self.cty(ins.ret)
                if bare.startswith('llvm.is.constant'): return lhs + '0;'
                raise TypeError('intrinsic ' + bare)
            if bare == 'verif_assert':
                cond = self.val(ins.args[0][1], ins.args[0][0])
                return self.assert_code(cond, ins.args[1][1])
            if bare == 'verif_reach':
                return 'VF_REACH();'
            args = [self.val(v, t) for t, v in ins.args]
            if n in M.funcs and not self.is_stubbed(n):
                self.need_fn(n)
                F = M.funcs[n]
                cargs = ['(%s)%s' % (self.cty(p[0]), a) if self.is_ptr(p[0]) else a for p, a in zip(F.params, args)]
                return lhs + 'f_%s(%s);' % (cid(n), ', '.join(cargs))
            fty = self.use_ext(n)
            # typed allocation: operator new followed by a bitcast of the result
            if bare in ('_Znwm', '__cxa_allocate_exception') and ins.res is not None:
                tt = None
                sz = ins.args[0][1]
                # the typed view of the fresh object: a bitcast of the result (anywhere in the function: an `invoke` of
                # operator new has its bitcast in the normal-destination block) to a type of matching size
                def fits(t):
                    try:
                        return isinstance(sz, CInt) and M.sizeof(t) >= sz.v and M.sizeof(t) - sz.v < 16
                    except Exception:
                        return False
                for j in [x for b in self.cur_blocks.values() for x in b]:
                    if j.op == 'cast' and j.kind == 'bitcast' and isinstance(j.val, Local) and j.val.n == ins.res:
                        ft = self.rs(j.tty)
                        if isinstance(ft, PtrTy) and not isinstance(ft.to, (FnTy, OtherTy)):
                            if not (isinstance(ft.to, NamedTy) and M.types.get(ft.to.name) is None):
                                if not isinstance(self.rs(ft.to), IntTy) and fits(ft.to):
                                    tt = ft.to
                                    break
                if tt is None and bare == '_Znwm':
                    # a coroutine ramp function allocates its frame as raw bytes; the frame's struct type is named after it
                    fn = self.cur_fname[1:].strip('"')
                    for cand in ('%"' + fn + '.Frame"', '%' + fn + '.Frame'):
                        if M.types.get(cand) is not None and fits(NamedTy(cand)):
                            tt = NamedTy(cand)
                if tt is not None and isinstance(sz, CInt) and M.sizeof(tt) >= sz.v and M.sizeof(tt) - sz.v < 16:
                    ct = self.cty(tt)
                    self.new_types[ct] = True
                    return lhs + '(%s)__vf_new_%s();' % (self.cty(ins.ret), re.sub(r'\W', '_', ct))
            if fty.varargs: args = args[:len(fty.args)]
            cargs = ['(P)' + a if self.is_ptr(t) else a for (t, v), a in zip(ins.args, args)]
            call = 'x_%s(%s)' % (cid(n), ', '.join(cargs))
            if res and self.is_ptr(ins.ret): call = '(%s)%s' % (self.cty(ins.ret), call)
            return lhs + call + ';'
        args = [self.val(v, t) for t, v in ins.args]
        fp = self.val(c, PtrTy(FnTy(ins.ret, [], False)))
        cands = self.candidates(ins)
        parts = []
        for n in cands:
            if n in M.funcs and not self.is_stubbed(n):
                self.need_fn(n)
                F = M.funcs[n]
                cargs = ['(%s)%s' % (self.cty(p[0]), a) if self.is_ptr(p[0]) else a for p, a in zip(F.params, args)]
                call = 'f_%s(%s)' % (cid(n), ', '.join(cargs))
                if res and self.is_ptr(ins.ret): call = '(%s)%s' % (self.cty(ins.ret), call)
                parts.append('if (__fp == (FP)&f_%s) { %s%s; }' % (cid(n), lhs, call))
            else:
                fty = self.use_ext(n)
                cargs = ['(P)' + a if self.is_ptr(t) else a for (t, v), a in zip(ins.args, args)]
                call = 'x_%s(%s)' % (cid(n), ', '.join(cargs))
                if res and self.is_ptr(ins.ret): call = '(%s)%s' % (self.cty(ins.ret), call)
                parts.append('if (__fp == (FP)&x_%s) { %s%s; }' % (cid(n), lhs, call))
        parts.append('{ __vf_badcall(); }')
        return '{ FP __fp = (FP)%s; %s }' % (fp, ' else '.join(parts))

    def assert_code(self, cond, idv):
        """VF_ASSERT with a literal id; the optimiser may have merged two call sites into a select of two ids"""
        if isinstance(idv, Local):
            d = self.cur_defs.get(idv.n)
            if d is not None and d.op == 'select':
                return 'if (%s) { %s } else { %s }' % (self.val(d.c, IntTy(1)), self.assert_code(cond, d.a), self.assert_code(cond, d.b))
            if d is not None and d.op == 'phi':
                ids = sorted(set(self.const_cstr(v) for v, l in d.inc))
                return 'VF_ASSERT(%s != 0, "VA:%s");' % (cond, '|'.join(ids))
        return 'VF_ASSERT(%s != 0, "VA:%s");' % (cond, self.const_cstr(idv))

    def const_cstr(self, v):
        """the C string literal a constant i8* operand points to (harness assertion ids)"""
        while isinstance(v, CExpr) and v.op in ('gep', 'bitcast'):
            v = v.args[0][1]
        if isinstance(v, Glob) and v.n in self.M.globals:
            init = self.M.globals[v.n][1]
            if isinstance(init, CStr):
                b = init.b.split(b'\0')[0]
                return re.sub(r'[^A-Za-z0-9_.:<>=+ -]', '_', b.decode('latin1'))
        raise TypeError('verif_assert id must be a string literal')

    def kind(self, t):
        if isinstance(t, VoidTy): return 'v'
        if self.is_ptr(t): return 'p'
        if self.is_agg(t): return 'a' + self.cty(t)
        return 'i%d' % self.M.sizeof(t)

    def candidates(self, ins):
        M = self.M
        if not hasattr(self, 'addr_taken'):
            self.scan_addr_taken()
        sig = (self.kind(ins.ret), tuple(self.kind(t) for t, v in ins.args))
        # vtable slot pattern
        slot = None
        c = ins.callee
        if isinstance(c, Local):
            d = self.cur_defs.get(c.n)
            if d is not None and d.op == 'load' and isinstance(d.ptr, Local):
                g = self.cur_defs.get(d.ptr.n)
                if g is not None and g.op == 'gep' and len(g.idx) == 1 and isinstance(g.idx[0][1], CInt):
                    slot = g.idx[0][1].v
                elif g is not None and g.op == 'load':
                    slot = 0
        out = []
        pool = self.vt_slots.get(slot, []) if slot is not None and slot in self.vt_slots else self.addr_taken
        for n in pool:
            if n in M.funcs:
                F = M.funcs[n]; fs = (self.kind(F.ret), tuple(self.kind(p[0]) for p in F.params))
            else:
                fty = M.decls[n]; fs = (self.kind(fty.ret), tuple(self.kind(t) for t in fty.args))
            if fs == sig and n not in out: out.append(n)
        # class-hierarchy pruning: a virtual call through a T* can only reach member functions of classes that contain a T
        # subobject (T itself, or T as a direct / indirect base = by-value field, at any offset for thunks)
        if ins.args:
            st = self.rs(ins.args[0][0])
            if isinstance(st, PtrTy) and isinstance(st.to, NamedTy) and M.types.get(st.to.name) is not None:
                keep = []
                for n in out:
                    if n in M.funcs and M.funcs[n].params:
                        ct = self.rs(M.funcs[n].params[0][0])
                        if isinstance(ct, PtrTy) and isinstance(ct.to, NamedTy) and M.types.get(ct.to.name) is not None:
                            if not self.contains_type(ct.to.name, st.to.name):
                                continue
                    keep.append(n)
                out = keep
        return out

    def contains_type(self, outer, inner, depth=0):
        """struct `outer` is `inner` or holds an `inner` by value (recursively)"""
        if outer == inner: return True
        key = (outer, inner)
        cache = self.__dict__.setdefault('_ct_cache', {})
        if key in cache: return cache[key]
        cache[key] = False
        t = self.M.types.get(outer)
        res = False
        def walk(t):
            if isinstance(t, NamedTy):
                return self.contains_type(t.name, inner, depth + 1)
            if isinstance(t, StructTy):
                return any(walk(f) for f in t.fields)
            if isinstance(t, ArrTy):
                return walk(t.el)
            return False
        if t is not None and depth < 12:
            res = walk(t)
        cache[key] = res
        return res

    def scan_addr_taken(self):
        M = self.M
        taken = collections.OrderedDict()
        self.vt_slots = {}

        def scan_val(v):
            if isinstance(v, Glob):
                if v.n in M.funcs or v.n in M.decls: taken[v.n] = True
            elif isinstance(v, CExpr):
                for a in v.args: scan_val(a[1])
            elif isinstance(v, CAgg):
                for a in v.elems: scan_val(a[1])
        for gn, (ty, init, const) in M.globals.items():
            if init is not None:
                scan_val(init)
                if gn[1:].strip('"').startswith('_ZTV') and isinstance(init, CAgg):
                    for (at, arr) in init.elems:
                        if isinstance(arr, CAgg):
                            for j, (et, ev) in enumerate(arr.elems):
                                f = ev
                                while isinstance(f, CExpr) and f.op == 'bitcast': f = f.args[0][1]
                                if isinstance(f, Glob) and (f.n in M.funcs or f.n in M.decls) and j >= 2:
                                    self.vt_slots.setdefault(j - 2, [])
                                    if f.n not in self.vt_slots[j - 2]: self.vt_slots[j - 2].append(f.n)
        for F in M.funcs.values():
            for insts in F.blocks.values():
                for ins in insts:
                    for k, v in ins.__dict__.items():
                        if k == 'callee': continue
                        if isinstance(v, V): scan_val(v)
                        elif isinstance(v, list):
                            for x in v:
                                if isinstance(x, tuple):
                                    for y in x:
                                        if isinstance(y, V): scan_val(y)
        i8p = PtrTy(IntTy(8))
        for vt, fns in EXTERNAL_VTABLES.items():
            for j, fn in enumerate(fns):
                if fn not in M.funcs and fn not in M.decls:
                    M.decls[fn] = FnTy(i8p if j == 2 else VoidTy(), [i8p], False)
                    M.nounwind.add(fn)
                self.vt_slots.setdefault(j, [])
                if fn not in self.vt_slots[j]: self.vt_slots[j].append(fn)
                taken[fn] = True
        self.addr_taken = list(taken)

    # ---------------- globals
    def static_init(self, ty, v):
        """C initializer text for a global of LLVM type ty with initializer v"""
        M = self.M
        rt = self.rs(ty)
        if v is None or isinstance(v, (CZero, CUndef)):
            return '{0}' if self.is_agg(ty) else '0'
        if isinstance(v, CStr):
            return '{{%s}}' % ','.join(str(b) for b in v.b)
        if isinstance(v, CAgg):
            if isinstance(rt, StructTy):
                return '{%s}' % ', '.join(self.static_init(et, ev) for et, ev in v.elems)
            return '{{%s}}' % ', '.join(self.static_init(et, ev) for et, ev in v.elems)
        return self.val(v, ty)

    def run(self):
        M = self.M
        self.fn_done = collections.OrderedDict()
        self.fn_queue = list(self.entries)
        self.glob_need = collections.OrderedDict()
        self.glob_queue = []
        fn_code = []
        glob_defs = []
        for wk in WELL_KNOWN_GLOBALS:
            if wk in M.globals and M.globals[wk][1] is not None: self.need_glob(wk)
            else:
                glob_defs.append('P g_%s[8]; /* well-known external %s */' % (cid(wk), wk)); self.glob_need[wk] = True
        if not hasattr(self, 'addr_taken'):
            self.scan_addr_taken()
        for vt, fns in EXTERNAL_VTABLES.items():
            for fn in fns: self.use_ext(fn)
            ti = '@_ZTI' + vt[5:]
            glob_defs.append('P g_%s[8] = {0, (P)&g_%s, %s}; /* modelled external vtable */' % (cid(vt), cid(ti), ', '.join('(P)&x_%s' % cid(f) for f in fns)))
            self.glob_need[vt] = True
        while self.fn_queue or self.glob_queue:
            while self.fn_queue:
                n = self.fn_queue.pop(0)
                if n in self.fn_done: continue
                self.fn_done[n] = True
                fn_code.append(self.emit_function(M.funcs[n]))
            while self.glob_queue:
                n = self.glob_queue.pop(0)
                ty, init, const = M.globals[n]
                if init is None:
                    sz = 64
                    glob_defs.append('P g_%s[%d]; /* external global %s */' % (cid(n), sz // 8, n))
                else:
                    glob_defs.append('%s%s g_%s = %s;' % ('', self.cty(ty), cid(n), self.static_init(ty, init)))
        o = ['/* generated by ll2c.py from LLVM IR of the real headers; do not edit */', '#include "rt.h"']
        # struct definitions in dependency order
        emitted = set()
        order = []

        def dep_emit(t, byval=True):
            """ensure the definition of t (if aggregate, by value) is emitted"""
            if isinstance(t, NamedTy):
                key = 'n_' + cid(t.name)
                if key in emitted: return
                body = M.types.get(t.name)
                if body is None:
                    emitted.add(key); order.append('struct %s;' % key); return
                emitted.add(key)
                order.append(None)  # placeholder to keep forward decl before
                idx = len(order) - 1
                order[idx] = 'struct %s;' % key
                self.struct_def(key, body, dep_emit, order)
                return
            if isinstance(t, (StructTy, ArrTy)):
                key = repr(t) + ('P' if getattr(t, 'packed', False) else '')
                name = self.aggs[key][0] if key in self.aggs else None
                if name is None:
                    self.cty(t); name = self.aggs[key][0]
                if name in emitted: return
                emitted.add(name)
                self.struct_def(name, t, dep_emit, order)
                return
            if isinstance(t, PtrTy):
                # pointer: only forward declaration needed
                to = t.to
                while isinstance(to, PtrTy): to = to.to
                if isinstance(to, NamedTy):
                    key = 'n_' + cid(to.name)
                    if key not in emitted and key not in self.fwd:
                        self.fwd.add(key); order.append('struct %s;' % key)
                elif isinstance(to, (StructTy, ArrTy)):
                    dep_emit(to)
        self.fwd = set()
        # iterate until closure (cty() may register new named/aggs while emitting)
        done_n = -1
        while done_n != len(self.named_used) + len(self.aggs):
            done_n = len(self.named_used) + len(self.aggs)
            for nm in list(self.named_used): dep_emit(NamedTy(nm))
            for key, (name, t) in list(self.aggs.items()): dep_emit(t)
        o.extend(x for x in order if x)
        for ct in self.new_types:
            fn = re.sub(r'\W', '_', ct)
            o.append('static inline %s* __vf_new_%s(void) { %s* p = malloc(sizeof(%s)); __vf_assume_nonnull(p); return p; }' % (ct, fn, ct, ct))
        for n, fty in self.ext_used.items():
            o.append('extern ' + self.ext_sig(n, fty) + '; /* %s */' % n)
        for n in self.fn_done:
            F = M.funcs[n]
            o.append(self.fn_sig(n, F.ret, [p[0] for p in F.params], 'f_') + ';')
        # globals: declare all first (initializers may refer to each other)
        for g in glob_defs:
            decl = g.split(' = ')[0].rstrip(';')
            decl = re.sub(r'\s*/\*.*', '', decl)
            o.append('extern ' + decl + ';')
        o.extend(glob_defs)
        o.extend(fn_code)
        return '\n'.join(o) + '\n'

    def struct_def(self, cname, t, dep_emit, order):
        M = self.M
        if isinstance(t, StructTy):
            for f in t.fields: dep_emit(f)
            fs = ' '.join('%s f%d;' % (self.cty(f), i) for i, f in enumerate(t.fields))
            if not t.fields: fs = ''
            order.append('struct %s { %s }%s;' % (cname, fs, ' __attribute__((packed))' if t.packed else ''))
            size = M.sizeof(t)
            if t.fields:
                order.append('_Static_assert(sizeof(struct %s) == %d, "layout %s");' % (cname, size, cname))
        else:
            dep_emit(t.el)
            order.append('struct %s { %s e[%d]; };' % (cname, self.cty(t.el), max(t.n, 1)))


def main():
    import argparse
    ap = argparse.ArgumentParser()
    ap.add_argument('ll')
    ap.add_argument('-o', required=True)
    ap.add_argument('--entry', action='append', required=True)
    ap.add_argument('--stub-prefix', action='append', default=[])
    a = ap.parse_args()
    M = parse_module(open(a.ll).read())
    E = Emitter(M, ['@' + e for e in a.entry], a.stub_prefix)
    code = E.run()
    open(a.o, 'w').write(code)
    sys.stderr.write('functions: %d  globals: %d  externals: %d\n' % (len(E.fn_done), len(E.glob_need), len(E.ext_used)))


if __name__ == '__main__':
    main()
