#!/usr/bin/env python3
"""
ll2c.py -- prototype LLVM-14 textual IR -> C translator for CBMC (feasibility probe).

Memory model: byte addressed; every LLVM pointer is `P` (unsigned char*).
Exceptions: lowered to a global pending flag (see rt.h).
"""
import re, sys, collections

# ----------------------------------------------------------------------------
# lexer
TOK = re.compile(r'''
   (?P<ws>\s+)
 | (?P<cstr>c"(?:[^"\\]|\\[0-9A-Fa-f]{2}|\\\\)*")
 | (?P<str>"(?:[^"\\]|\\.)*")
 | (?P<local>%(?:"(?:[^"\\]|\\.)*"|[-a-zA-Z$._0-9]+))
 | (?P<global>@(?:"(?:[^"\\]|\\.)*"|[-a-zA-Z$._0-9]+))
 | (?P<meta>![-a-zA-Z$._0-9]*)
 | (?P<attr>\#[0-9]+)
 | (?P<comdat>\$(?:"(?:[^"\\]|\\.)*"|[-a-zA-Z$._0-9]+))
 | (?P<num>-?[0-9]+(?:\.[0-9]+(?:e[-+]?[0-9]+)?)?)
 | (?P<hex>0x[0-9A-Fa-f]+)
 | (?P<dots>\.\.\.)
 | (?P<word>[a-zA-Z_][a-zA-Z_0-9.]*)
 | (?P<punct>[()\[\]{}<>,=*:|])
''', re.X)


def lex(s):
    out = []
    pos = 0
    n = len(s)
    while pos < n:
        if s[pos] == ';':
            break
        m = TOK.match(s, pos)
        if not m:
            raise SyntaxError('lex error at %r' % s[pos:pos + 40])
        pos = m.end()
        k = m.lastgroup
        if k == 'ws':
            continue
        out.append((k, m.group(k)))
    return out


class Toks:
    def __init__(self, toks, src=''):
        self.t = toks
        self.i = 0
        self.src = src

    def peek(self, k=0):
        j = self.i + k
        return self.t[j] if j < len(self.t) else ('eof', '')

    def next(self):
        x = self.peek()
        self.i += 1
        return x

    def at(self, v):
        return self.peek()[1] == v

    def accept(self, v):
        if self.peek()[1] == v:
            self.i += 1
            return True
        return False

    def expect(self, v):
        x = self.next()
        if x[1] != v:
            raise SyntaxError('expected %r got %r in: %s' % (v, x, self.src[:300]))

    def eof(self):
        return self.i >= len(self.t)


# ----------------------------------------------------------------------------
# types
class Ty:
    pass


class IntTy(Ty):
    def __init__(s, bits): s.bits = bits
    def __repr__(s): return 'i%d' % s.bits


class VoidTy(Ty):
    def __repr__(s): return 'void'


class FloatTy(Ty):
    def __init__(s, name): s.name = name
    def __repr__(s): return s.name


class PtrTy(Ty):
    def __init__(s, to): s.to = to
    def __repr__(s): return '%r*' % (s.to,)


class ArrTy(Ty):
    def __init__(s, n, el): s.n = n; s.el = el
    def __repr__(s): return '[%d x %r]' % (s.n, s.el)


class StructTy(Ty):
    def __init__(s, fields, packed=False): s.fields = fields; s.packed = packed
    def __repr__(s): return '{%s}' % ','.join(map(repr, s.fields))


class NamedTy(Ty):
    def __init__(s, name): s.name = name
    def __repr__(s): return s.name


class FnTy(Ty):
    def __init__(s, ret, args, varargs): s.ret = ret; s.args = args; s.varargs = varargs
    def __repr__(s): return '%r(%s)' % (s.ret, ','.join(map(repr, s.args)))


class OtherTy(Ty):
    def __init__(s, name): s.name = name
    def __repr__(s): return s.name


PARAM_ATTRS = set('''noundef nonnull noalias nocapture readonly readnone writeonly signext zeroext
returned immarg nest inreg nofree swiftself swifterror swiftasync allocalign allocptr'''.split())
PARAM_ATTRS_ARG = set('align dereferenceable dereferenceable_or_null sret byval byref inalloca preallocated elementtype'.split())


class Module:
    def __init__(self):
        self.types = {}      # name -> Ty or None(opaque)
        self.globals = collections.OrderedDict()
        self.funcs = collections.OrderedDict()
        self.decls = {}
        self.nounwind_groups = set()
        self.nounwind = set()
        self.fn_attr_group = {}

    # ---- layout
    def resolve(self, t):
        while isinstance(t, NamedTy):
            r = self.types.get(t.name)
            if r is None:
                raise KeyError('opaque type ' + t.name)
            t = r
        return t

    def sizeof(self, t):
        t = self.resolve(t)
        if isinstance(t, IntTy):
            b = (t.bits + 7) // 8
            p = 1
            while p < b: p *= 2
            return p
        if isinstance(t, PtrTy): return 8
        if isinstance(t, FloatTy): return {'float': 4, 'double': 8, 'half': 2, 'x86_fp80': 16, 'fp128': 16}[t.name]
        if isinstance(t, ArrTy): return t.n * self.sizeof(t.el)
        if isinstance(t, StructTy):
            return self.struct_layout(t)[1]
        raise TypeError('sizeof %r' % (t,))

    def alignof(self, t):
        t = self.resolve(t)
        if isinstance(t, IntTy): return min(self.sizeof(t), 8) if t.bits <= 64 else 16
        if isinstance(t, PtrTy): return 8
        if isinstance(t, FloatTy): return {'float': 4, 'double': 8, 'half': 2, 'x86_fp80': 16, 'fp128': 16}[t.name]
        if isinstance(t, ArrTy): return self.alignof(t.el)
        if isinstance(t, StructTy):
            if t.packed or not t.fields: return 1
            return max(self.alignof(f) for f in t.fields)
        raise TypeError('alignof %r' % (t,))

    def struct_layout(self, t):
        off = 0
        offs = []
        for f in t.fields:
            a = 1 if t.packed else self.alignof(f)
            off = (off + a - 1) // a * a
            offs.append(off)
            off += self.sizeof(f)
        a = 1 if t.packed else (max([self.alignof(f) for f in t.fields]) if t.fields else 1)
        off = (off + a - 1) // a * a
        return offs, off


def parse_type(tk, allow_fn=True):
    k, v = tk.next()
    if k == 'word':
        if v == 'void': t = VoidTy()
        elif re.fullmatch(r'i[0-9]+', v): t = IntTy(int(v[1:]))
        elif v in ('float', 'double', 'half', 'x86_fp80', 'fp128'): t = FloatTy(v)
        elif v in ('label', 'metadata', 'token', 'opaque', 'ptr'): t = OtherTy(v)
        else: raise SyntaxError('type? %r in %s' % (v, tk.src[:200]))
    elif k == 'local':
        t = NamedTy(v)
    elif v == '{':
        fs = []
        if not tk.accept('}'):
            while True:
                fs.append(parse_type(tk))
                if tk.accept('}'): break
                tk.expect(',')
        t = StructTy(fs)
    elif v == '[':
        n = int(tk.next()[1]); tk.expect('x'); el = parse_type(tk); tk.expect(']')
        t = ArrTy(n, el)
    elif v == '<':
        if tk.accept('{'):
            fs = []
            if not tk.accept('}'):
                while True:
                    fs.append(parse_type(tk))
                    if tk.accept('}'): break
                    tk.expect(',')
            tk.expect('>')
            t = StructTy(fs, packed=True)
        else:
            n = int(tk.next()[1]); tk.expect('x'); el = parse_type(tk); tk.expect('>')
            t = OtherTy('<%d x %r>' % (n, el))
    else:
        raise SyntaxError('type? %r %r in %s' % (k, v, tk.src[:200]))
    while True:
        if tk.at('*'):
            tk.next(); t = PtrTy(t)
        elif tk.at('(') and allow_fn:
            tk.next()
            args = []; va = False
            if not tk.accept(')'):
                while True:
                    if tk.peek()[0] == 'dots':
                        tk.next(); va = True
                    else:
                        args.append(parse_type(tk))
                    if tk.accept(')'): break
                    tk.expect(',')
            t = FnTy(t, args, va)
        else:
            break
    return t


# ----------------------------------------------------------------------------
# values
class V:  # value
    pass


class Local(V):
    def __init__(s, n): s.n = n


class Glob(V):
    def __init__(s, n): s.n = n


class CInt(V):
    def __init__(s, v): s.v = v


class CNull(V):
    pass


class CUndef(V):
    pass


class CZero(V):
    pass


class CAgg(V):
    def __init__(s, elems, kind): s.elems = elems; s.kind = kind  # list of (ty, V)


class CStr(V):
    def __init__(s, b): s.b = b


class CExpr(V):
    def __init__(s, op, args, extra=None): s.op = op; s.args = args; s.extra = extra


def skip_param_attrs(tk):
    while True:
        k, v = tk.peek()
        if k == 'word' and v in PARAM_ATTRS:
            tk.next()
        elif k == 'word' and v in PARAM_ATTRS_ARG:
            tk.next()
            if tk.accept('('):
                depth = 1
                while depth:
                    x = tk.next()[1]
                    if x == '(': depth += 1
                    elif x == ')': depth -= 1
            elif v == 'align':
                tk.next()
        else:
            break


def parse_cstr(lit):
    s = lit[2:-1]
    out = bytearray()
    i = 0
    while i < len(s):
        if s[i] == '\\':
            if s[i + 1] == '\\':
                out.append(92); i += 2
            else:
                out.append(int(s[i + 1:i + 3], 16)); i += 3
        else:
            out.append(ord(s[i])); i += 1
    return bytes(out)


def parse_value(tk, ty):
    k, v = tk.next()
    if k == 'local': return Local(v)
    if k == 'global': return Glob(v)
    if k == 'num': return CInt(int(v))
    if k == 'cstr': return CStr(parse_cstr(v))
    if k == 'word':
        if v == 'true': return CInt(1)
        if v == 'false': return CInt(0)
        if v == 'null': return CNull()
        if v in ('undef', 'poison'): return CUndef()
        if v == 'zeroinitializer': return CZero()
        if v in ('getelementptr',):
            tk.accept('inbounds')
            tk.expect('(')
            bt = parse_type(tk); tk.expect(',')
            args = []
            while True:
                tk.accept('inrange')
                t = parse_type(tk); val = parse_value(tk, t); args.append((t, val))
                if tk.accept(')'): break
                tk.expect(',')
            return CExpr('gep', args, bt)
        if v in ('bitcast', 'ptrtoint', 'inttoptr', 'trunc', 'zext', 'sext', 'addrspacecast'):
            tk.expect('(')
            t = parse_type(tk); val = parse_value(tk, t); tk.expect('to'); t2 = parse_type(tk); tk.expect(')')
            return CExpr(v, [(t, val)], t2)
        if v in ('add', 'sub', 'mul', 'and', 'or', 'xor', 'shl', 'lshr', 'ashr'):
            while tk.peek()[1] in ('nuw', 'nsw', 'exact'): tk.next()
            tk.expect('(')
            t = parse_type(tk); a = parse_value(tk, t); tk.expect(',')
            t2 = parse_type(tk); b = parse_value(tk, t2); tk.expect(')')
            return CExpr(v, [(t, a), (t2, b)])
        if v == 'icmp':
            pred = tk.next()[1]
            tk.expect('(')
            t = parse_type(tk); a = parse_value(tk, t); tk.expect(',')
            t2 = parse_type(tk); b = parse_value(tk, t2); tk.expect(')')
            return CExpr('icmp', [(t, a), (t2, b)], pred)
        if v == 'select':
            tk.expect('(')
            args = []
            while True:
                t = parse_type(tk); val = parse_value(tk, t); args.append((t, val))
                if tk.accept(')'): break
                tk.expect(',')
            return CExpr('select', args)
    if v == '{' or v == '[':
        close = '}' if v == '{' else ']'
        elems = []
        if not tk.accept(close):
            while True:
                t = parse_type(tk); val = parse_value(tk, t); elems.append((t, val))
                if tk.accept(close): break
                tk.expect(',')
        return CAgg(elems, v)
    if v == '<':
        if tk.accept('{'):
            elems = []
            if not tk.accept('}'):
                while True:
                    t = parse_type(tk); val = parse_value(tk, t); elems.append((t, val))
                    if tk.accept('}'): break
                    tk.expect(',')
            tk.expect('>')
            return CAgg(elems, '{')
    raise SyntaxError('value? %r %r in %s' % (k, v, tk.src[:300]))


def parse_tv(tk):
    t = parse_type(tk)
    skip_param_attrs(tk)
    return t, parse_value(tk, t)


# ----------------------------------------------------------------------------
class Inst:
    def __init__(s, res, op, **kw):
        s.res = res; s.op = op
        s.__dict__.update(kw)


class Func:
    def __init__(s, name, ret, params, attrs_line):
        s.name = name; s.ret = ret; s.params = params; s.blocks = collections.OrderedDict(); s.attrs_line = attrs_line


LINKAGE = set('''private internal available_externally linkonce weak common appending extern_weak linkonce_odr
weak_odr external dso_local dso_preemptable default hidden protected dllimport dllexport unnamed_addr
local_unnamed_addr thread_local externally_initialized fastcc ccc coldcc'''.split())


def parse_module(text):
    M = Module()
    lines = text.split('\n')
    i = 0
    n = len(lines)
    while i < n:
        line = lines[i]
        i += 1
        if line.startswith('attributes '):
            m = re.match(r'attributes #(\d+) = \{(.*)\}', line)
            if m and re.search(r'\bnounwind\b', m.group(2)): M.nounwind_groups.add(int(m.group(1)))
            continue
        if not line or line[0] in ';!' or line.startswith(('source_filename', 'target ', '$')):
            continue
        if line.startswith('%'):
            tk = Toks(lex(line), line)
            name = tk.next()[1]; tk.expect('='); tk.expect('type')
            if tk.at('opaque'):
                M.types[name] = None
            else:
                M.types[name] = parse_type(tk)
            continue
        if line.startswith('@'):
            tk = Toks(lex(line), line)
            name = tk.next()[1]; tk.expect('=')
            is_ext = False
            while tk.peek()[0] == 'word' and tk.peek()[1] in LINKAGE:
                if tk.peek()[1] in ('external', 'extern_weak'): is_ext = True
                tk.next()
                if tk.at('('):  # thread_local(...)
                    while tk.next()[1] != ')': pass
            kind = tk.next()[1]
            if kind == 'alias':
                raise SyntaxError('alias unsupported: ' + line[:100])
            assert kind in ('global', 'constant'), line[:200]
            ty = parse_type(tk)
            init = None
            if not is_ext and not tk.eof() and not tk.at(','):
                init = parse_value(tk, ty)
            M.globals[name] = (ty, init, kind == 'constant')
            continue
        if line.startswith('declare'):
            tk = Toks(lex(line), line)
            tk.next()
            while tk.peek()[0] == 'word' and (tk.peek()[1] in LINKAGE or tk.peek()[1] in PARAM_ATTRS or tk.peek()[1] in PARAM_ATTRS_ARG):
                skip_one_attr(tk)
            ret = parse_type(tk, allow_fn=False)
            name = tk.next()[1]
            tk.expect('(')
            ps = []; va = False
            if not tk.accept(')'):
                while True:
                    if tk.peek()[0] == 'dots': tk.next(); va = True
                    else:
                        t = parse_type(tk); skip_param_attrs(tk); ps.append(t)
                        if tk.peek()[0] == 'local': tk.next()
                    if tk.accept(')'): break
                    tk.expect(',')
            M.decls[name] = FnTy(ret, ps, va)
            mm = re.search(r'#(\d+)', line[line.rfind(')'):])
            if mm: M.fn_attr_group[name] = int(mm.group(1))
            continue
        if line.startswith('define'):
            tk = Toks(lex(line), line)
            tk.next()
            while tk.peek()[0] == 'word' and (tk.peek()[1] in LINKAGE or tk.peek()[1] in PARAM_ATTRS or tk.peek()[1] in PARAM_ATTRS_ARG):
                skip_one_attr(tk)
            ret = parse_type(tk, allow_fn=False)
            name = tk.next()[1]
            tk.expect('(')
            ps = []
            if not tk.accept(')'):
                while True:
                    if tk.peek()[0] == 'dots': raise SyntaxError('varargs define')
                    t = parse_type(tk)
                    byval = None
                    # detect byval
                    j = tk.i
                    skip_param_attrs(tk)
                    seg = [x[1] for x in tk.t[j:tk.i]]
                    if 'byval' in seg:
                        byval = True
                    pn = tk.next()[1]
                    ps.append((t, pn, byval))
                    if tk.accept(')'): break
                    tk.expect(',')
            F = Func(name, ret, ps, line)
            mm = re.search(r'\)[^()]*#(\d+)[^()]*\{\s*$', line) or re.search(r'#(\d+)[^#]*\{\s*$', line)
            if mm: M.fn_attr_group[name] = int(mm.group(1))
            M.funcs[name] = F
            # body
            cur = None
            first = True
            while True:
                l = lines[i]; i += 1
                if l == '}': break
                if not l.strip(): continue
                m = re.match(r'^([-a-zA-Z$._0-9]+|"[^"]*"):', l)
                if m:
                    cur = []
                    F.blocks['%' + m.group(1)] = cur
                    continue
                if cur is None:
                    # entry block has implicit label = number of params (unnamed) -- find by counting
                    cur = []
                    F.blocks['%__entry'] = cur
                # gather continuation lines (switch / landingpad / invoke)
                full = l
                s = l.strip()
                if re.search(r'\bswitch\b', s) and s.endswith('['):
                    while not lines[i].strip().startswith(']'):
                        full += ' ' + lines[i].strip(); i += 1
                    full += ' ]'; i += 1
                elif re.search(r'=\s*landingpad\b', s):
                    while re.match(r'^\s+(catch|filter|cleanup)\b', lines[i]):
                        full += ' ' + lines[i].strip(); i += 1
                elif re.search(r'\binvoke\b', s) and not re.search(r'\bunwind label\b', s):
                    full += ' ' + lines[i].strip(); i += 1
                cur.append(parse_inst(full))
            fix_entry_label(F)
            continue
        raise SyntaxError('toplevel? ' + line[:120])
    for fn, g in M.fn_attr_group.items():
        if g in M.nounwind_groups: M.nounwind.add(fn)
    return M


def skip_one_attr(tk):
    k, v = tk.next()
    if v in PARAM_ATTRS_ARG or v == 'thread_local':
        if tk.accept('('):
            depth = 1
            while depth:
                x = tk.next()[1]
                if x == '(': depth += 1
                elif x == ')': depth -= 1
        elif v == 'align':
            tk.next()


def fix_entry_label(F):
    # the entry block's implicit name is %N where N = number of unnamed params so far; find from preds usage:
    # simply compute: count of unnamed (numeric) params
    nums = [int(p[1][1:]) for p in F.params if re.fullmatch(r'%[0-9]+', p[1])]
    unnamed = (max(nums) + 1) if nums else 0
    if '%__entry' in F.blocks:
        b = F.blocks.pop('%__entry')
        nb = collections.OrderedDict()
        nb['%%%d' % unnamed] = b
        for k, v in F.blocks.items(): nb[k] = v
        F.blocks = nb


CALL_PREFIX = set('tail musttail notail'.split())
CCONV = set('ccc fastcc coldcc'.split())
FMF = set('fast nnan ninf nsz arcp contract afn reassoc'.split())


def strip_meta(s):
    # remove trailing ", !tbaa !5, !noalias !7" etc.
    idx = s.find(', !')
    if idx >= 0: s = s[:idx]
    return s


def parse_inst(line):
    s = strip_meta(line.strip())
    tk = Toks(lex(s), s)
    res = None
    if tk.peek()[0] == 'local' and tk.peek(1)[1] == '=':
        res = tk.next()[1]; tk.next()
    while tk.peek()[1] in CALL_PREFIX: tk.next()
    op = tk.next()[1]
    if op in ('call', 'invoke'):
        while tk.peek()[1] in FMF or tk.peek()[1] in CCONV: tk.next()
        skip_param_attrs(tk)
        rty = parse_type(tk)   # may be full fn type
        callee = parse_value(tk, rty)
        tk.expect('(')
        args = []
        if not tk.accept(')'):
            while True:
                t = parse_type(tk)
                if isinstance(t, OtherTy) and t.name == 'metadata':
                    # metadata arg: skip to , or )
                    depth = 0
                    while True:
                        x = tk.peek()[1]
                        if depth == 0 and x in (',', ')'): break
                        if x == '(': depth += 1
                        if x == ')': depth -= 1
                        tk.next()
                    args.append((t, CUndef()))
                else:
                    skip_param_attrs(tk)
                    args.append((t, parse_value(tk, t)))
                if tk.accept(')'): break
                tk.expect(',')
        fnty = rty if isinstance(rty, FnTy) else None
        ret = rty.ret if fnty else rty
        normal = unwind = None
        if op == 'invoke':
            # skip attrs until 'to'
            while not tk.at('to'): tk.next()
            tk.expect('to'); tk.expect('label'); normal = tk.next()[1]
            tk.expect('unwind'); tk.expect('label'); unwind = tk.next()[1]
        return Inst(res, op, ret=ret, callee=callee, args=args, normal=normal, unwind=unwind, src=s)
    if op == 'ret':
        t = parse_type(tk)
        v = None if isinstance(t, VoidTy) else parse_value(tk, t)
        return Inst(None, 'ret', ty=t, val=v)
    if op == 'br':
        if tk.accept('label'):
            return Inst(None, 'br', cond=None, t=tk.next()[1], f=None)
        t = parse_type(tk); c = parse_value(tk, t); tk.expect(','); tk.expect('label'); a = tk.next()[1]
        tk.expect(','); tk.expect('label'); b = tk.next()[1]
        return Inst(None, 'br', cond=c, t=a, f=b)
    if op == 'switch':
        t = parse_type(tk); v = parse_value(tk, t); tk.expect(','); tk.expect('label'); d = tk.next()[1]
        tk.expect('[')
        cases = []
        while not tk.accept(']'):
            ct = parse_type(tk); cv = parse_value(tk, ct); tk.expect(','); tk.expect('label'); cl = tk.next()[1]
            cases.append((cv, cl))
        return Inst(None, 'switch', ty=t, val=v, default=d, cases=cases)
    if op == 'unreachable':
        return Inst(None, 'unreachable')
    if op == 'resume':
        t = parse_type(tk); v = parse_value(tk, t)
        return Inst(None, 'resume', ty=t, val=v)
    if op == 'alloca':
        tk.accept('inalloca')
        t = parse_type(tk)
        cnt = None
        align = 8
        while tk.accept(','):
            if tk.accept('align'):
                align = int(tk.next()[1])
            else:
                ct = parse_type(tk); cnt = (ct, parse_value(tk, ct))
        return Inst(res, 'alloca', ty=t, cnt=cnt, align=align)
    if op == 'load':
        tk.accept('atomic'); tk.accept('volatile')
        t = parse_type(tk); tk.expect(','); pt = parse_type(tk); p = parse_value(tk, pt)
        return Inst(res, 'load', ty=t, ptr=p)
    if op == 'store':
        tk.accept('atomic'); tk.accept('volatile')
        t = parse_type(tk); v = parse_value(tk, t); tk.expect(','); pt = parse_type(tk); p = parse_value(tk, pt)
        return Inst(None, 'store', ty=t, val=v, ptr=p)
    if op == 'getelementptr':
        tk.accept('inbounds')
        bt = parse_type(tk); tk.expect(',')
        pt = parse_type(tk); p = parse_value(tk, pt)
        idx = []
        while tk.accept(','):
            tk.accept('inrange')
            it = parse_type(tk); idx.append((it, parse_value(tk, it)))
        return Inst(res, 'gep', base=bt, ptr=p, idx=idx)
    if op in ('bitcast', 'ptrtoint', 'inttoptr', 'trunc', 'zext', 'sext', 'addrspacecast', 'fptoui', 'fptosi', 'uitofp', 'sitofp', 'fpext', 'fptrunc'):
        t = parse_type(tk); v = parse_value(tk, t); tk.expect('to'); t2 = parse_type(tk)
        return Inst(res, 'cast', kind=op, fty=t, val=v, tty=t2)
    if op in ('add', 'sub', 'mul', 'udiv', 'sdiv', 'urem', 'srem', 'and', 'or', 'xor', 'shl', 'lshr', 'ashr'):
        while tk.peek()[1] in ('nuw', 'nsw', 'exact'): tk.next()
        t = parse_type(tk); a = parse_value(tk, t); tk.expect(','); b = parse_value(tk, t)
        return Inst(res, 'bin', kind=op, ty=t, a=a, b=b)
    if op == 'icmp':
        pred = tk.next()[1]
        t = parse_type(tk); a = parse_value(tk, t); tk.expect(','); b = parse_value(tk, t)
        return Inst(res, 'icmp', pred=pred, ty=t, a=a, b=b)
    if op == 'fcmp':
        while tk.peek()[1] in ('fast', 'nnan', 'ninf', 'nsz', 'arcp', 'contract', 'afn', 'reassoc'): tk.next()
        pred = tk.next()[1]
        t = parse_type(tk); a = parse_value(tk, t); tk.expect(','); b = parse_value(tk, t)
        return Inst(res, 'fcmp', pred=pred, ty=t, a=a, b=b)
    if op == 'select':
        ct = parse_type(tk); c = parse_value(tk, ct); tk.expect(',')
        t = parse_type(tk); a = parse_value(tk, t); tk.expect(',')
        t2 = parse_type(tk); b = parse_value(tk, t2)
        return Inst(res, 'select', c=c, ty=t, a=a, b=b)
    if op == 'phi':
        t = parse_type(tk)
        inc = []
        while True:
            tk.expect('['); v = parse_value(tk, t); tk.expect(','); l = tk.next()[1]; tk.expect(']')
            inc.append((v, l))
            if not tk.accept(','): break
        return Inst(res, 'phi', ty=t, inc=inc)
    if op == 'extractvalue':
        t = parse_type(tk); v = parse_value(tk, t)
        idx = []
        while tk.accept(','): idx.append(int(tk.next()[1]))
        return Inst(res, 'extractvalue', ty=t, val=v, idx=idx)
    if op == 'insertvalue':
        t = parse_type(tk); v = parse_value(tk, t); tk.expect(',')
        et = parse_type(tk); ev = parse_value(tk, et)
        idx = []
        while tk.accept(','): idx.append(int(tk.next()[1]))
        return Inst(res, 'insertvalue', ty=t, val=v, ety=et, ev=ev, idx=idx)
    if op == 'landingpad':
        t = parse_type(tk)
        cleanup = False; clauses = []
        while not tk.eof():
            w = tk.next()[1]
            if w == 'cleanup': cleanup = True
            elif w == 'catch':
                ct = parse_type(tk); clauses.append(('catch', parse_value(tk, ct)))
            elif w == 'filter':
                ct = parse_type(tk); clauses.append(('filter', parse_value(tk, ct)))
        return Inst(res, 'landingpad', ty=t, cleanup=cleanup, clauses=clauses)
    if op == 'atomicrmw':
        tk.accept('volatile')
        kind = tk.next()[1]
        pt = parse_type(tk); p = parse_value(tk, pt); tk.expect(',')
        t = parse_type(tk); v = parse_value(tk, t)
        return Inst(res, 'atomicrmw', kind=kind, ty=t, ptr=p, val=v)
    if op == 'cmpxchg':
        tk.accept('weak'); tk.accept('volatile')
        pt = parse_type(tk); p = parse_value(tk, pt); tk.expect(',')
        t = parse_type(tk); c = parse_value(tk, t); tk.expect(',')
        t2 = parse_type(tk); nv = parse_value(tk, t2)
        return Inst(res, 'cmpxchg', ty=t, ptr=p, cmp=c, new=nv)
    if op == 'fence':
        return Inst(None, 'nop')
    if op == 'freeze':
        t = parse_type(tk); v = parse_value(tk, t)
        return Inst(res, 'cast', kind='bitcast', fty=t, val=v, tty=t)
    raise SyntaxError('inst? %s' % s[:200])


# ----------------------------------------------------------------------------
# emission
def cid(name):
    """LLVM name -> C identifier"""
    n = name[1:]
    if n.startswith('"'): n = n[1:-1]
    out = re.sub(r'[^A-Za-z0-9_]', lambda m: '_%02x' % ord(m.group(0)), n)
    return out


