#!/usr/bin/env python3
"""turn definitions of std-boundary functions (by mangled-name prefix) into declarations; drop noinline/optnone"""
import re, sys


def strip(src, dst, prefixes):
    out = []
    lines = open(src).read().split('\n')
    i = 0
    n = 0
    while i < len(lines):
        l = lines[i]
        if l.startswith('define'):
            m = re.search(r'@("?)([A-Za-z0-9_.$]+)\1\(', l)
            name = m.group(2) if m else ''
            if any(name.startswith(p) for p in prefixes):
                j = i
                while lines[j] != '}':
                    j += 1
                d = l
                d = re.sub(r'^define\s+', 'declare ', d)
                d = re.sub(r'\b(linkonce_odr|weak_odr|internal|private|available_externally|linkonce|weak)\b\s*', '', d)
                d = re.sub(r'\s+personality .*$', '', d)
                d = re.sub(r'\s*\{\s*$', '', d)
                d = re.sub(r'\s+comdat(\([^)]*\))?', '', d)
                d = re.sub(r'\s+align \d+\s*$', '', d)
                out.append(d)
                i = j + 1
                n += 1
                continue
        if l.startswith('attributes #'):
            l = re.sub(r'\bnoinline\b ?', '', l)
            l = re.sub(r'\boptnone\b ?', '', l)
        out.append(l)
        i += 1
    open(dst, 'w').write('\n'.join(out))
    return n


if __name__ == '__main__':
    print(strip(sys.argv[1], sys.argv[2], sys.argv[3:]))
