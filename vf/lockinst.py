#!/usr/bin/env python3
"""
lockinst.py -- C12 instrumentation of the clang-emitted IR (before inlining): at the entry of every library function
that reads or writes state shared between threads, insert a call to a runtime obligation
    __vf_lockreq_<kind>(i8* this)
which asserts that the global recursive mutex is held (rt/rt.c).  The call survives inlining, so the obligation is
checked wherever the body ends up.  Which functions, and under which runtime condition:

  kind 'always'  : sequence_type::{is_completed,is_first,cost,retire_until,add_last,validate_match},
                   list<call_matcher_base<Sig>>::{push_front,push_back}, list<sequence_matcher>::{push_front,push_back},
                   call_matcher_list<Sig>::decommission (body after its own lock), find<Sig>, sequence_handler_base::increment_call,
                   call_matcher::run_actions' shared part is covered through increment_call / unlink / push_back
  kind 'linked'  : list_elem<call_matcher_base<Sig>>::unlink and list_elem<sequence_matcher>::unlink -- only when the
                   element is linked (unlinking a private, unlinked element touches nothing shared)
  kind 'limits'  : sequence_handler_base::set_limits -- only when the handler is a sequenced one whose handle is already
                   registered in a sequence (then other threads can read the limits through the sequence)
  lock-free readers: lifetime_monitor::{is_satisfied,is_saturated} hold no lock; they get the 'always' obligation as soon as\n                   their body reads or writes memory directly instead of through std::atomic (died flag demoted to a plain bool)\n  kind 'monitor' : lifetime_monitor::notify (died flag / counters); the monitor slot accessors of null_on_move and the counter
                   reads of sequence_handler_base are in 'always'

Private lists (conditions, side effects, yield expressions) are owned by the expectation under construction and are
deliberately not instrumented.
"""
import re

ALWAYS = [
    r'^_ZNK11trompeloeil13sequence_type12is_completedEv$',
    r'^_ZNK11trompeloeil13sequence_type8is_firstEPKNS_16sequence_matcherE$',
    r'^_ZNK11trompeloeil13sequence_type4costEPKNS_16sequence_matcherE$',
    r'^_ZN11trompeloeil13sequence_type12retire_untilEPKNS_16sequence_matcherE$',
    r'^_ZN11trompeloeil13sequence_type8add_lastEPNS_16sequence_matcherE$',
    r'^_ZNK11trompeloeil13sequence_type14validate_matchE',
    r'^_ZN11trompeloeil4listINS_17call_matcher_baseI.*E(10push_front|9push_back)EPS',
    r'^_ZN11trompeloeil4listINS_16sequence_matcherENS_15ignore_disposerEE(10push_front|9push_back)EPS',
    r'^_ZN11trompeloeil21sequence_handler_base14increment_callEv$',
    r'^_ZN11trompeloeil4findI.*EEPNS_17call_matcher_baseIT_EERNS_17call_matcher_listIS',
    # call counters are read by cost() / is_completed() of other threads: every read happens under the lock
    r'^_ZNK11trompeloeil21sequence_handler_base(12is_satisfied|12is_saturated|9get_calls)Ev$',
    # the monitor slot of a deathwatched object (null_on_move): read / written only inside locked regions
    # (copy / move construction and assignment of the slot belong to a not-yet-shared or caller-owned object and are excluded)
    r'^_ZNK11trompeloeil12null_on_moveINS_16lifetime_monitorEE(cvbEv|ptEv|deEv)$',
    r'^_ZN11trompeloeil12null_on_moveINS_16lifetime_monitorEE(4leakEv|aSEPS1_)$',
]
LINKED = [
    r'^_ZN11trompeloeil9list_elemINS_17call_matcher_baseI.*EEE6unlinkEv$',
    r'^_ZN11trompeloeil9list_elemINS_16sequence_matcherEE6unlinkEv$',
]
LIMITS = [r'^_ZN11trompeloeil21sequence_handler_base10set_limitsEmm$']
MONITOR = [r'^_ZN11trompeloeil16lifetime_monitor6notifyEv$']
# lock-free readers: lifetime_monitor::is_satisfied / is_saturated take no lock, which is sound only while everything they read
# is read through std::atomic.  If their body contains ANY direct (non-atomic) load, the read needs the lock: kind 'always'.
LOCKFREE_READERS = [r'^_ZNK11trompeloeil16lifetime_monitor(12is_satisfied|12is_saturated)Ev$']


def instrument(text):
    out = []
    n = 0
    lines = text.split('\n')
    i = 0
    used = set()
    while i < len(lines):
        l = lines[i]
        out.append(l)
        if l.startswith('define') and l.rstrip().endswith('{'):
            m = re.search(r'@("?)([A-Za-z0-9_.$]+)\1\(([^)]*)', l)
            if m:
                name = m.group(2)
                kind = None
                for k, pats in (('always', ALWAYS), ('linked', LINKED), ('limits', LIMITS), ('monitor', MONITOR)):
                    if any(re.search(p, name) for p in pats):
                        kind = k
                if kind is None and any(re.search(p, name) for p in LOCKFREE_READERS):
                    j = i + 1
                    while j < len(lines) and lines[j] != '}':
                        if re.search(r'= load (?!atomic)', lines[j]) or re.search(r'^\s*store (?!atomic)', lines[j]):
                            kind = 'always'
                        j += 1
                if kind:
                    rest = l[m.end(2) + (2 if m.group(1) else 0) + l[m.end(2):].index('(') + 1 - (0):]
                    rest = l[l.index('(', m.end(2)) + 1:]
                    tm = re.match(r'\s*((?:%"[^"]+"|%[\w.]+|i\d+)\**)', rest)
                    am = re.search(r' (%[-a-zA-Z$._0-9]+)(?=[,)])', rest)
                    if tm and am and tm.group(1).endswith('*'):
                        pty, pn = tm.group(1), am.group(1)
                        tmp = '%%vf.lockreq.%d' % n
                        out.append('  %s = bitcast %s %s to i8*' % (tmp, pty, pn))
                        out.append('  call void @__vf_lockreq_%s(i8* %s)' % (kind, tmp))
                        used.add(kind)
                        n += 1
        i += 1
    decl = '\n'.join('declare void @__vf_lockreq_%s(i8*)' % k for k in sorted(used))
    return '\n'.join(out) + '\n' + decl + '\n', n
