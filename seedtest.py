#!/usr/bin/env python3
"""
seedtest.py -- run registered checks against a seeded change:
   ./seedtest.py seeded/<id> [--props C05,C06] [--tier quick] [--only REGEX]
applies seeded/<id>/patch.diff to /repo (git apply), runs ./check for the listed properties (default: the property in
meta.json), records exit codes and VIOLATION lines into seeded/<id>/result.json, and always reverts /repo
(git checkout -- .).  Never commits anything in /repo.
With --scratch the patch is applied to a throw-away git worktree of /repo under /tmp instead (removed afterwards) and the
checks read that tree (VERIF_REPO): several seeds for DIFFERENT properties can then be tried at the same time.
"""
import sys, os, json, subprocess, argparse, time, re
V = os.path.dirname(os.path.abspath(__file__))
ap = argparse.ArgumentParser()
ap.add_argument('dir'); ap.add_argument('--props'); ap.add_argument('--tier', default='quick'); ap.add_argument('--only'); ap.add_argument('--scratch', action='store_true'); ap.add_argument('--jobs')
a = ap.parse_args()
d = os.path.abspath(a.dir)
meta = json.load(open(os.path.join(d, 'meta.json'))) if os.path.exists(os.path.join(d, 'meta.json')) else {}
props = a.props.split(',') if a.props else [meta.get('property')]
TREE = '/repo'
if a.scratch:
    TREE = '/tmp/seedtree_' + os.path.basename(d)
    subprocess.run(['git', '-C', '/repo', 'worktree', 'remove', '--force', TREE], capture_output=True)
    r = subprocess.run(['git', '-C', '/repo', 'worktree', 'add', '--detach', TREE, 'HEAD'], capture_output=True, text=True)
    if r.returncode != 0:
        print('cannot create scratch worktree:', r.stderr); sys.exit(2)
else:
    st = subprocess.run(['git', '-C', '/repo', 'status', '--porcelain', '--untracked-files=no'], capture_output=True, text=True).stdout.strip()
    if st:
        print('refusing: /repo has local modifications:\n' + st); sys.exit(2)
r = subprocess.run(['git', '-C', TREE, 'apply', os.path.join(d, 'patch.diff')], capture_output=True, text=True)
if r.returncode != 0:
    print('patch does not apply:', r.stderr)
    if a.scratch: subprocess.run(['git', '-C', '/repo', 'worktree', 'remove', '--force', TREE])
    sys.exit(2)
res = {}
try:
    for p in props:
        t0 = time.time()
        cmd = [os.path.join(V, 'check'), p, '--tier', a.tier, '--no-evidence'] + (['--only', a.only] if a.only else []) + (['--jobs', a.jobs] if a.jobs else [])
        r = subprocess.run(cmd, capture_output=True, text=True, cwd=V, env=dict(os.environ, VERIF_REPO=TREE))
        viol = [l for l in r.stdout.split('\n') if l.startswith('VIOLATION')]
        other = [l[:300] for l in r.stdout.split('\n') if l.startswith(('MACHINERY', 'KNOWN-FINDING'))]
        res[p] = dict(exit=r.returncode, violations=[v[:400] for v in viol], other=other[:6], wall_s=round(time.time() - t0, 1),
                      summary=r.stdout.strip().split('\n')[-1][:300], cmd=' '.join(cmd[1:]))
        print(p, 'exit', r.returncode, len(viol), 'violations', res[p]['summary'])
        for v in viol[:4]: print('   ', v[:260])
        for o in other[:3]: print('   ', o[:260])
finally:
    if a.scratch:
        subprocess.run(['git', '-C', '/repo', 'worktree', 'remove', '--force', TREE]); subprocess.run(['git', '-C', '/repo', 'worktree', 'prune'])
    else:
        subprocess.run(['git', '-C', '/repo', 'checkout', '--', '.'])
out = os.path.join(d, 'result.json')
old = json.load(open(out)) if os.path.exists(out) else {}
old.update(res)
json.dump(old, open(out, 'w'), indent=1)
