#!/usr/bin/env python3
"""regenerate MANIFEST.json from specs.py (so the manifest never drifts from what the driver runs)"""
import json, os, sys
sys.path.insert(0, os.path.dirname(os.path.abspath(__file__)))
import specs

ALL = ['C%02d' % i for i in range(1, 21)]
checks = []
na = []
for pid in ALL:
    if pid in specs.PROPS:
        sp = specs.PROPS[pid]()
        if sp.get('not_applicable'):
            na.append(dict(property_id=pid, reason=sp['not_applicable']))
            continue
        checks.append(dict(
            property_id=pid,
            quick_cmd='./check %s --tier quick' % pid,
            thorough_cmd='./check %s --tier thorough' % pid,
            evidence_file='evidence/%s.json' % pid,
            replay_cmd_template='./check %s --replay {path}' % pid,
            engine='ir2c-cbmc',
            level_claimed=dict(category=sp.get('level', 'model_checking'), text=sp['level_text'], design_ref=sp.get('design_ref', 'DESIGN.md section 6, ' + pid)),
            level_note=sp.get('level_note', 'trusted: clang-14 -O1 lowering, vf/ll2c.py (validated per run against the native build), rt/ environment model, cbmc+SAT; bounds stated in the evidence'),
            technique=sp.get('technique', 'bounded symbolic execution (CBMC/SAT) of C generated from the LLVM IR of the real headers; counterexamples replayed natively'),
        ))
    else:
        na.append(dict(property_id=pid, reason=specs.NOT_BUILT.get(pid, 'check not built yet in this tree (work in progress, see DESIGN.md)')))
m = dict(
    version=1,
    setup_cmd='python3 -m compileall -q vf specs.py check mkmanifest.py >/dev/null 2>&1; cbmc --version >/dev/null && clang++-14 --version >/dev/null',
    hooks=dict(guard='ROLLBEAR_TROMPELOEIL_VERIF', enable='-DROLLBEAR_TROMPELOEIL_VERIF on the harness translation units only (no hook code in /repo; private state is reached with -fno-access-control)',
               baseline_off_cmd='cmake --build /repo/_build >/dev/null && /repo/_build/test/self_test && /repo/_build/test/custom_recursive_mutex && timeout 900 /repo/_build/test/thread_terror',
               source_commits=[], add_only=True),
    engines=[dict(name='ir2c-cbmc', path='vf/', serves_properties=[c['property_id'] for c in checks],
                  kind_free_text='clang-14 IR of the real headers -> typed C (vf/ll2c.py) -> cbmc 6.11 bounded symbolic execution; native replay of counterexamples')],
    checks=checks,
    not_applicable=na,
    notes='All checks rebuild from /repo working tree. Exit 2 = machinery fault / inconclusive (never reported as held).',
)
json.dump(m, open(os.path.join(os.path.dirname(os.path.abspath(__file__)), 'MANIFEST.json'), 'w'), indent=1)
print('checks:', [c['property_id'] for c in checks], 'n/a:', [x['property_id'] for x in na])
