"""
specs.py -- the queries (harness, shape, bound) registered per property, and the evidence writer.

A query = one harness source + compile-time shape parameters (-DVF_*) + unwind bound.  Shapes are
enumerated here (configurations); the values inside a shape are decided by the solver.
tier 'quick' queries also run in 'thorough'.
"""
import os, json, itertools

VERIF = os.path.dirname(os.path.abspath(__file__))


def Q(name, src, unwind, tier='quick', **kw):
    d = dict(name=name, src=src, unwind=unwind, tier=tier)
    d.update(kw)
    return d


PROPS = {}
NOT_BUILT = {}
CUR_TIER, CUR_SEED = 'quick', 1
GEN = os.path.join(VERIF, '.work', 'gen')


def prop(pid):
    def deco(f):
        PROPS[pid] = f
        return f
    return deco


# ------------------------------------------------------------------------------------------- C02
def find_queries():
    qs = []
    for n in (0, 1, 2, 3, 4):
        qs.append(Q('find_N%d' % n, 'C02/find.cpp', n + 2, defs={'VF_N': n}))
    for n in (5, 6):
        qs.append(Q('find_N%d' % n, 'C02/find.cpp', n + 2, tier='thorough', defs={'VF_N': n}, timeout=600))
    return qs


@prop('C02')
def c02():
    return dict(
        queries=find_queries() + stack_queries(2),
        level='model_checking',
        level_text='Bounded: the real find<Sig>() selection loop is decided against the C02 selection rule for every match/cost vector of lists up to the stated length.',
        bound='find<Sig>: list length N<=4 (quick) / <=6 (thorough), all 2^N match vectors x all 32-bit cost vectors',
        assumptions=[],
    )


# ------------------------------------------------------------------------------------------- shared API kernels
def stack_queries(nn, quick_shapes=((1, 0), (1, 1), (2, 0), (2, 1), (2, 2)), thorough_shapes=((2, 3), (3, 0), (3, 1), (3, 2), (3, 4), (3, 5))):
    """api/stack.cpp: N stacked expectations, SAT = bitmask of pre-saturated ones; only property nn's obligations"""
    qs = []
    for n, sat in quick_shapes:
        qs.append(Q('stack_N%d_sat%d' % (n, sat), 'api/stack.cpp', n + 3, defs={'VF_N': n, 'VF_SAT': sat, 'VF_CLAIM': nn}, timeout=600))
    for n, sat in thorough_shapes:
        qs.append(Q('stack_N%d_sat%d' % (n, sat), 'api/stack.cpp', n + 3, tier='thorough', defs={'VF_N': n, 'VF_SAT': sat, 'VF_CLAIM': nn}, timeout=3000))
    return qs


STACK_BOUND = ('api/stack: N<=2 (quick) / N<=3 (thorough) live expectations f(ge(lo)).WITH(_1<=hi) on one int(int) mock function, every '
               'pre-saturation pattern, all 64-bit (L,H,count) per expectation under the stated invariant, all 32-bit lo/hi/argument, one call')


# ------------------------------------------------------------------------------------------- C01
@prop('C01')
def c01():
    return dict(
        queries=find_queries() + stack_queries(1),
        level='model_checking',
        level_text='Bounded: real find<Sig>() for all match/cost vectors; one real mock call against N<=2(3) real stacked expectations from an arbitrary invariant-satisfying counter state with arbitrary matcher operands and argument: accepted iff the designated candidate exists and is not forbidding, otherwise exactly one fatal report and no effect.',
        bound=STACK_BOUND + '; find<Sig> list length <=4 (6)',
        outside='histories longer than one call from the constructed pre-state (covered inductively through the invariant), sequences (C05), mock moves (C14)',
    )


# ------------------------------------------------------------------------------------------- C03
@prop('C03')
def c03():
    qs = [Q('counter', 'C03/counter.cpp', 2)]
    for r in (0, 9):
        qs.append(Q('run_regime%d' % r, 'C03/run.cpp', 4, defs={'VF_REGIME': r}, timeout=600))
    for r in (1, 2):
        qs.append(Q('run_regime%d' % r, 'C03/run.cpp', 4, tier='thorough', defs={'VF_REGIME': r}, timeout=600))
    return dict(
        queries=qs + stack_queries(3),
        level='model_checking',
        level_text='Bounded/inductive: counter predicates for all 64-bit (L,H,count); one real mock call from an arbitrary invariant-satisfying counter state moves the expectation to the saturated list iff count reaches H, stacked or alone.',
        bound='one step from an arbitrary counter state; ' + STACK_BOUND,
        outside='n accepted calls => min(n,H) follows by induction on the invariant (argument, not solver fact)',
    )


# ------------------------------------------------------------------------------------------- C07
@prop('C07')
def c07():
    return dict(
        queries=stack_queries(7) + [Q('run_forbidden', 'C03/run.cpp', 4, defs={'VF_REGIME': 0})],
        level='model_checking',
        level_text='Bounded: a forbidding (H==0) designated candidate yields exactly one fatal report with its location, no count change, no side effect, stays active, satisfied and saturated; non-matching calls pass it by.',
        bound=STACK_BOUND,
    )


# ------------------------------------------------------------------------------------------- C08
@prop('C08')
def c08():
    return dict(
        queries=stack_queries(8),
        level='model_checking',
        level_text='Bounded: only the handling expectation\'s side effect runs, once; its RETURN value reaches the caller.',
        bound=STACK_BOUND,
    )


# ------------------------------------------------------------------------------------------- C10
@prop('C10')
def c10():
    import gen
    files = gen.c10_files(os.path.join(GEN, 'C10'), CUR_TIER, CUR_SEED)
    qs = [Q(name, path, 3, timeout=300, ncases=n) for name, path, n in files]
    return dict(
        queries=qs,
        level='model_checking',
        level_text='Bounded: param_matches(tree, x) equals the mathematical predicate for all 32-bit argument and operand values (and null / non-null pointers), for every matcher expression tree in the enumerated + drawn set of depth <= 3.',
        bound='expression trees of depth <=3 over eq/ne/lt/le/gt/ge (duck-typed and <int>), _, ANY(int), plain values, !, *, any_of/all_of/none_of with 1..3 operands, MEMBER_IS; all int values',
        outside='re(): the regular expression engine is libstdc++ and outside the claim; string operands',
    )


# ------------------------------------------------------------------------------------------- C16
@prop('C16')
def c16():
    return dict(
        queries=stack_queries(16),
        level='model_checking',
        level_text='Bounded: exactly one OK report per accepted call carrying the handling expectation\'s text; none for rejected/forbidden calls.',
        bound=STACK_BOUND,
    )


def queries(pid, tier, seed=1):
    global CUR_TIER, CUR_SEED
    CUR_TIER, CUR_SEED = tier, seed
    sp = PROPS[pid]()
    return [q for q in sp['queries'] if tier == 'thorough' or q['tier'] == 'quick']


COMMON_TRUST = [
    'clang++-14 front end and its -O1 pipeline (the IR is what is executed symbolically, not the C++ source)',
    'vf/ll2c.py IR->C translator (validated on every run: generated C vs native g++ build on random choice vectors)',
    'rt/rt.c environment model: libstdc++ strings/streams/mutex/exceptions replaced at API level (DESIGN.md section 4)',
    'cbmc 6.11.0 + its SAT back end; --no-malloc-may-fail (allocation failure outside the claim)',
]


def write_evidence(pid, tier, seed, recs, wall, nviol, known_hits):
    sp = PROPS[pid]()
    decided = [r for r in recs if r['status'] in ('HELD', 'VIOLATED')]
    nontrivial = [r for r in decided if r.get('witnesses', 0) > 0]
    fns = sorted(set(f for r in recs for f in r.get('functions_encoded', [])))
    samples = []
    for r in recs[:6]:
        samples.append(dict(query=r['name'], harness=r['src'], shape=r['defs'], unwind=r['unwind'], status=r['status'],
                            cbmc_properties=r.get('n_properties'), solver_s=r.get('solver_s'), wall_s=r.get('wall_s')))
    ev = dict(
        property_id=pid, tier=tier, seed=seed, level=sp.get('level', 'model_checking'),
        coverage=dict(
            evaluations=len(recs),
            distinct_nontrivial=len(set(r['name'] for r in nontrivial)),
            rule='one evaluation = one solver query (harness x shape x unwind bound) over the IR of the real headers; '
                 'counted non-trivial only if it got a verdict AND its reachability witness (assert(0) at the end of the '
                 'harness) was refuted by the solver, i.e. the assumptions are satisfiable and the assertions reachable',
            samples=samples,
            obligations=len(recs), discharged=sum(1 for r in recs if r['status'] == 'HELD'),
            checker_cmd=next((r['cmd'] for r in recs if r.get('cmd')), 'cbmc'),
            trusted_base=COMMON_TRUST,
            traces_validated_against_impl=sum(r.get('tv_runs', 0) for r in recs) + sum(len(r['violations']) for r in recs),
            states=sum(r.get('n_properties') or 0 for r in recs) or 1,
            transitions=len(recs) or 1,
            bound=sp.get('bound', ''),
            outside_bound=sp.get('outside', ''),
            functions_encoded=fns,
            solver_time_s=round(sum(r.get('solver_s') or 0 for r in recs), 2),
            cbmc_wall_s=round(sum(r.get('cbmc_wall_s') or 0 for r in recs), 2),
            queries=[dict(name=r['name'], status=r['status'], unwind=r['unwind'], shape=r['defs'], properties=r.get('n_properties'),
                          solver_s=r.get('solver_s'), wall_s=r.get('wall_s'), notes=r['notes'],
                          violations=[dict(obligation=v['assert_id'], reproduced=v['reproduced'], values=v['values'][:24]) for v in r['violations']])
                     for r in recs],
            inconclusive=[r['name'] for r in recs if r['status'] in ('FAULT', 'INCONCLUSIVE')],
            known_findings_hit=[dict(query=rec['name'], obligation=v['assert_id'], what=k['what']) for k, rec, v in known_hits],
            explanation='bounded symbolic execution (CBMC) of C generated from the LLVM IR clang-14 emits for the real trompeloeil '
                        'headers; states = CBMC properties (harness obligations + generated pointer/bounds checks) checked, '
                        'transitions = solver queries; nothing here is an unbounded proof',
            exhaustive=False,
        ),
        assumptions=sp.get('assumptions', []) + ['unwind bounds carry --unwinding-assertions'],
        wall_s=round(wall, 2),
        violations=nviol,
    )
    os.makedirs(os.path.join(VERIF, 'evidence'), exist_ok=True)
    json.dump(ev, open(os.path.join(VERIF, 'evidence', pid + '.json'), 'w'), indent=1)
