"""
specs.py -- the queries (harness, shape, bound) registered per property, and the evidence writer.

A query = one harness source + compile-time shape parameters (-DVF_*) + unwind bound.  Shapes are
enumerated here (configurations); the values inside a shape are decided by the solver.
tier 'quick' queries also run in 'thorough'.
"""
import os, json, itertools

VERIF = os.path.dirname(os.path.abspath(__file__))


def Q(name, src, unwind, tier='quick', **kw):
    d = dict(name=name, src=src, unwind=unwind, tier=tier)
    d.update(kw)
    return d


PROPS = {}
NOT_BUILT = {
    'C19': 'not applicable to solver-based checking of the real code: the subject is the C++ front end accepting or rejecting PROGRAMS (68 negative compilation tests, clause-order legality) and the wording of its diagnostics; a rejected program has no intermediate representation to execute symbolically, so the only deciding step is running the compiler on each program - enumeration of concrete runs, which this technique family excludes (DESIGN.md section 6, C19)',
}
CUR_TIER, CUR_SEED = 'quick', 1
GEN = os.path.join(VERIF, '.work', 'gen')


def prop(pid):
    def deco(f):
        PROPS[pid] = f
        return f
    return deco


# ------------------------------------------------------------------------------------------- C02
def find_queries():
    qs = []
    for n in (0, 1, 2, 3, 4):
        qs.append(Q('find_N%d' % n, 'C02/find.cpp', n + 2, defs={'VF_N': n}))
    for n in (5, 6):
        qs.append(Q('find_N%d' % n, 'C02/find.cpp', n + 2, tier='thorough', defs={'VF_N': n}, timeout=600))
    return qs


@prop('C02')
def c02():
    return dict(
        queries=find_queries() + stack_queries(2) + plumb_queries(2, (2, 3, 4, 5)) + [q for q in seqkern_queries(2) if q['defs']['VF_OP'] == 0 and q['tier'] == 'quick'] + seqstep_queries(2, quick_only=2)[:2] + [Q('seqpick_%d' % sc, 'api/seqpick.cpp', 6, defs={'VF_SCENE': sc, 'VF_CLAIM': 2}, timeout=900, portfolio=sc >= 5) for sc in (1, 2, 3, 4, 6)],   # scene 5 does not finish in 25 min on either SAT back end: outside the claim
        level='model_checking',
        level_text='Bounded: the real find<Sig>() selection loop is decided against the C02 selection rule for every match/cost vector of lists up to the stated length.',
        bound='find<Sig>: list length N<=4 (quick) / <=6 (thorough), all 2^N match vectors x all 32-bit cost vectors',
        assumptions=[],
    )


# ------------------------------------------------------------------------------------------- shared API kernels
def stack_queries(nn, quick_shapes=((1, 0), (1, 1), (2, 0), (2, 1), (2, 2)), thorough_shapes=((2, 3), (3, 5))):
    # N=3 with fewer than two pre-saturated expectations does not finish within 50 min (SAT, both back ends): outside the claim
    """api/stack.cpp: N stacked expectations, SAT = bitmask of pre-saturated ones; only property nn's obligations"""
    qs = []
    for n, sat in quick_shapes:
        qs.append(Q('stack_N%d_sat%d' % (n, sat), 'api/stack.cpp', n + 3, defs={'VF_N': n, 'VF_SAT': sat, 'VF_CLAIM': nn}, timeout=900, portfolio=True))
    for n, sat in thorough_shapes:
        qs.append(Q('stack_N%d_sat%d' % (n, sat), 'api/stack.cpp', n + 3, tier='thorough', defs={'VF_N': n, 'VF_SAT': sat, 'VF_CLAIM': nn}, timeout=3000, portfolio=True))
    return qs


def macro_queries(nn):
    """api/macros.cpp: every spelling of the expectation macros (NAMED_*_V, scoped *_V, C++14 forms) stores the documented limits and keeps its clauses"""
    return [Q('macros_form%d' % f, 'api/macros.cpp', 10, defs={'VF_FORM': f, 'VF_CLAIM': nn}, timeout=900, portfolio=True) for f in (1, 2, 3)]


def plumb_queries(nn, scenes):
    return [Q('plumb_scene%d' % sc, 'api/plumb.cpp', 8, defs={'VF_SCENE': sc, 'VF_CLAIM': nn}, timeout=600) for sc in scenes]


PLUMB_BOUND = 'api/plumb: straight-line scenes (concrete control, symbolic argument / return values) for lifetimes, isolation, shadowing, TIMES forms, RT_TIMES inversion, mock move'


STACK_BOUND = ('api/stack: N<=2 (quick) / N<=3 (thorough) live expectations f(ge(lo)).WITH(_1<=hi) on one int(int) mock function, every '
               'pre-saturation pattern, all 64-bit (L,H,count) per expectation under the stated invariant, all 32-bit lo/hi/argument, one call')


# ------------------------------------------------------------------------------------------- C01
@prop('C01')
def c01():
    return dict(
        queries=find_queries() + stack_queries(1) + plumb_queries(1, (1, 2, 6)) + macro_queries(1)[:1] + [q for q in seqkern_queries(1) if q['defs']['VF_OP'] == 1 and q['defs']['VF_K'] == 2 and q['defs']['VF_N'] == 3 and q['tier'] == 'quick'] + [q for q in seqkern_queries(1) if q['defs']['VF_OP'] == 0 and q['defs']['VF_K'] == 2 and q['defs']['VF_N'] == 3 and q['tier'] == 'quick'] + [Q('actions_W%d_S1_mode0_at0_b%d' % (w, b), 'C08/actions.cpp', 6, defs={'VF_W': w, 'VF_S': 1, 'VF_MODE': 0, 'VF_AT': 0, 'VF_B': b, 'VF_CLAIM': 1}) for w, b in ((2, 2), (3, 4), (3, 6), (3, 5))] + seqstep_queries(1, quick_only=1)[:1] + [Q('dtor_order5', 'C04/dtor.cpp', 10, defs={'VF_ORDER': 5, 'VF_CLAIM': 1}, timeout=900, portfolio=True)] + [q for q in mismatch_queries(1) if q['tier'] == 'quick' and q['defs']['VF_NA'] + q['defs']['VF_NS'] <= 2],
        level='model_checking',
        level_text='Bounded: real find<Sig>() for all match/cost vectors; one real mock call against N<=2(3) real stacked expectations from an arbitrary invariant-satisfying counter state with arbitrary matcher operands and argument: accepted iff the designated candidate exists and is not forbidding, otherwise exactly one fatal report and no effect.',
        bound=STACK_BOUND + '; find<Sig> list length <=4 (6)',
        outside='histories longer than one call from the constructed pre-state (covered inductively through the invariant), sequences (C05), mock moves (C14)',
    )


# ------------------------------------------------------------------------------------------- C03
@prop('C03')
def c03():
    qs = [Q('counter', 'C03/counter.cpp', 2), Q('times', 'C03/times.cpp', 4, defs={'VF_CLAIM': 3}, timeout=300)]
    for r in (0, 9):
        qs.append(Q('run_regime%d' % r, 'C03/run.cpp', 4, defs={'VF_REGIME': r}, timeout=600))
    for r in (1, 2):
        qs.append(Q('run_regime%d' % r, 'C03/run.cpp', 4, tier='thorough', defs={'VF_REGIME': r}, timeout=600))
    return dict(
        queries=qs + macro_queries(3) + stack_queries(3) + [Q('dtor_order%d' % o, 'C04/dtor.cpp', 10, defs={'VF_ORDER': o, 'VF_CLAIM': 3}, timeout=900) for o in (1, 4)] + plumb_queries(3, (7, 8, 9, 10, 12)) + [q for q in mismatch_queries(3) if q['tier'] == 'quick' and q['defs']['VF_NS'] == 2 and q['defs']['VF_NA'] == 0] + [Q('mismatch_A1_S1_15', 'C15/mismatch.cpp', 14, defs={'VF_NA': 1, 'VF_NS': 1, 'VF_C0': 1, 'VF_C1': 5, 'VF_CLAIM': 3})],
        level='model_checking',
        level_text='Bounded/inductive: counter predicates for all 64-bit (L,H,count); one real mock call from an arbitrary invariant-satisfying counter state moves the expectation to the saturated list iff count reaches H, stacked or alone.',
        bound='one step from an arbitrary counter state; ' + STACK_BOUND,
        outside='n accepted calls => min(n,H) follows by induction on the invariant (argument, not solver fact)',
    )


# ------------------------------------------------------------------------------------------- C07
@prop('C07')
def c07():
    return dict(
        queries=stack_queries(7) + [Q('run_forbidden', 'C03/run.cpp', 4, defs={'VF_REGIME': 0})] + plumb_queries(7, (6, 15)) + macro_queries(7),
        level='model_checking',
        level_text='Bounded: a forbidding (H==0) designated candidate yields exactly one fatal report with its location, no count change, no side effect, stays active, satisfied and saturated; non-matching calls pass it by.',
        bound=STACK_BOUND,
    )


# ------------------------------------------------------------------------------------------- C08
@prop('C08')
def c08():
    qs = []
    i = 0
    for w in (0, 1, 2, 3):
        for sn in (0, 1, 2, 3):
            for mode in (0, 1, 2, 3):
                ats = range(sn) if mode == 2 else (0,)
                if mode == 2 and sn == 0: continue
                for at in ats:
                    for b in range(1 << w):
                        quick = (w, sn) in ((0, 0), (1, 1), (2, 2), (3, 3), (2, 3), (3, 1)) or (mode == 0 and b == (1 << w) - 1)
                        qs.append(Q('actions_W%d_S%d_mode%d_at%d_b%d' % (w, sn, mode, at, b), 'C08/actions.cpp', 6, tier='quick' if quick else 'thorough',
                                    defs={'VF_W': w, 'VF_S': sn, 'VF_MODE': mode, 'VF_AT': at, 'VF_B': b, 'VF_CLAIM': 8}, tv=(i % 11 == 0), timeout=600))
                        i += 1
    return dict(
        queries=qs + [Q('retref', 'C08/retref.cpp', 6, defs={'VF_CLAIM': 8}, timeout=600)] + stack_queries(8, quick_shapes=((1, 0), (2, 1), (2, 2)), thorough_shapes=((2, 0),)) + plumb_queries(8, (11,)) + [Q('dtor_order5', 'C04/dtor.cpp', 10, defs={'VF_ORDER': 5, 'VF_CLAIM': 8}, timeout=900, portfolio=True)] + [q for q in mismatch_queries(8) if q['tier'] == 'quick' and q['defs']['VF_NA'] + q['defs']['VF_NS'] <= 2 and q['defs']['VF_NA'] >= 1],
        level='model_checking',
        level_text='Bounded: for every clause arrangement (0..3 WITH x 0..3 SIDE_EFFECT x RETURN/THROW/throwing side effect/void) and every WITH outcome vector: WITH clauses run in declaration order and stop at the first false, side effects run once each in order and only then RETURN/THROW once, the value / exception reaches the caller for all 32-bit values, a throwing call still counts, and a shadowed expectation\'s actions never run.',
        bound='clause arrangements up to 3+3 (enumerated shapes, WITH outcomes as shape); argument, returned and thrown values symbolic; ' + STACK_BOUND,
        outside='recursive mock calls from a side effect beyond plumb scene 11; reference returns beyond C08/retref.cpp (T const& via RETURN(captured) / LR_RETURN: same object every call, no copy per call) and the C09 retref shapes',
    )


# ------------------------------------------------------------------------------------------- C04
@prop('C04')
def c04():
    qs = [Q('dtor_order%d' % o, 'C04/dtor.cpp', 10, defs={'VF_ORDER': o, 'VF_CLAIM': 4}, timeout=900, portfolio=(o == 5)) for o in (0, 1, 2, 3, 4, 5)]
    qs += macro_queries(4) + plumb_queries(4, (10, 13)) + [q for q in mismatch_queries(4) if q['tier'] == 'quick' and q['defs']['VF_NA'] <= 1]
    return dict(
        queries=qs,
        level='model_checking',
        level_text='Bounded: for every 64-bit (L,H,count) under the invariant and each lifetime-ending order (release first / mock first / already listed in a no-match report / saturated), exactly one non-fatal report iff count<L and not yet reported, with the expectation\'s location, text and the required / actual counts; never a second one.',
        bound='one expectation f(7) on one mock; orders {release->mock, mock->release, no-match-listing->release->mock, saturated: mock->release}; all counters',
        outside='movable mocks (C14 list-move kernel covers the splice); several expectations dying together',
    )


# ------------------------------------------------------------------------------------------- C13 / C14 death histories
def death_shapes(maxlen):
    """legal histories over ops 1..9 (see C13/death.cpp), deduplicated; returns list of (ops tuple, multi flag)"""
    out = []
    def legal(seq):
        alive = True; ex = [False, False]; multi = False
        for o in seq:
            if o in (1, 2):
                k = o - 1
                if not alive or ex[k]: return None
                if ex[1 - k]: multi = True
                ex[k] = True
            elif o in (3, 4):
                if not ex[o - 3]: return None
                ex[o - 3] = False
            elif o == 5:
                if not alive: return None
                alive = False
            else:
                if not alive: return None
        return multi
    for n in range(1, maxlen + 1):
        for seq in itertools.product(range(1, 10), repeat=n):
            m = legal(seq)
            if m is None: continue
            # symmetry: requirement #1 is only used after #0 has been used
            if 2 in seq and (1 not in seq or seq.index(2) < seq.index(1)): continue
            out.append((seq, m))
    return out


def death_queries(nn):
    qs = []
    for tier, ml in (('quick', 3), ('thorough', 4)):
        for i, (seq, multi) in enumerate(death_shapes(ml)):
            if tier == 'thorough' and len(seq) <= 3: continue
            defs = {'VF_O%d' % (j + 1): o for j, o in enumerate(seq)}
            for j in range(len(seq), 5): defs['VF_O%d' % (j + 1)] = 0
            defs['VF_CLAIM'] = nn
            qs.append(Q('death_%s%s' % ('multi_' if multi else '', ''.join(map(str, seq))), 'C13/death.cpp', 4, tier=tier, defs=defs,
                        tv=(i % 9 == 0), sanitize=True, timeout=300))
    return qs


DEATH_BOUND = 'all legal histories of length <=3 (quick) / <=4 (thorough) over {create / release requirement #0,#1, destroy, copy-, move-construct from, assign to, assign from} on one deathwatched object, then wind-down'


@prop('C13')
def c13():
    return dict(
        queries=death_queries(13) + [Q('unwind_form%d' % f, 'C13/unwind.cpp', 6, defs={'VF_FORM': f, 'VF_CLAIM': 13}, timeout=600) for f in (0, 1)] + [Q('null_on_move', 'C13/nom.cpp', 3), Q('seqdeath_K2', 'api/seqdeath.cpp', 6, defs={'VF_K': 2, 'VF_CLAIM': 13}, timeout=900)],
        level='model_checking',
        level_text='Bounded: every short history of requirement creation/release, destruction, copy/move/assignment on a deathwatched object yields exactly the reports and is_satisfied/is_saturated values of the 4-state reference; null_on_move special members for arbitrary pointer values. Histories are configurations (enumerated); memory safety of each is decided by the solver.',
        bound=DEATH_BOUND,
        outside='sequenced monitors (C05), several watched objects interacting; requirement lifetimes ended by an exception are covered by C13/unwind.cpp (NAMED and scoped form) only',
    )


def order_queries(nn):
    qs = []
    for i, perm in enumerate(itertools.permutations((1, 2, 3, 4, 5))):
        quick = i % 3 == 0
        defs = {'VF_P%d' % (k + 1): v for k, v in enumerate(perm)}
        defs['VF_CLAIM'] = nn
        qs.append(Q('order_%d%d%d%d%d' % perm, 'C14/order.cpp', 6, tier='quick' if quick else 'thorough', defs=defs, tv=(i % 12 == 0), sanitize=True, timeout=300))
    return qs


@prop('C14')
def c14():
    qs = []
    for n in range(0, 5):
        for op in range(0, 6):
            poss = range(max(n, 1)) if op in (1, 2, 3) else (0,)
            for pos in poss:
                if op in (1, 2, 3) and n == 0: continue
                qs.append(Q('list_N%d_op%d_pos%d' % (n, op, pos), 'C14/list.cpp', n + 4, tier='quick' if n <= 3 else 'thorough',
                            defs={'VF_N': n, 'VF_OP': op, 'VF_POS': pos}, tv=(n == 3 and pos == 0)))
    return dict(
        queries=qs + death_queries(14) + [Q('dtor_order%d' % o, 'C04/dtor.cpp', 10, defs={'VF_ORDER': o, 'VF_CLAIM': 14}, timeout=600) for o in (1, 3)] + plumb_queries(14, (10, 13, 16)) + [Q('seqgone_%d' % v, 'C14/seqgone.cpp', 6, defs={'VF_V': v, 'VF_CLAIM': 14}, sanitize=True) for v in (0, 1, 2)] + order_queries(14),
        level='model_checking',
        level_text='Bounded: intrusive list primitives keep the ring invariant at every position of rings up to 4; every short destruction/copy/move/assignment history of a deathwatched object and its requirements, and mock-before-expectation destruction, run without touching freed or dead memory (CBMC pointer checks on every dereference of the IR-derived code).',
        bound='list rings n<=3 (4), every position, ops {push, unlink, move-ctor, move-assign, list move, dtor}; every third (quick) / every (thorough) destruction order of {mock, plain expectation, sequenced expectation, sequence, tracer} with probes on the survivors; ' + DEATH_BOUND,
        outside='populations with several mocks / several tracers; calls that consult a destroyed sequence (recorded known finding seqgone_0)',
    )


# ------------------------------------------------------------------------------------------- C05 / C06 kernels
def seqkern_queries(nn):
    """seq/kern.cpp shapes: (N handles, K sequences, GONE mask, OP, PICK)"""
    shapes = []
    for n, tier in ((1, 'quick'), (2, 'quick'), (3, 'quick'), (4, 'thorough')):
        for k in (1, 2):
            for gone in range(1 << n):
                if k == 2 and gone not in (0, 1, (1 << n) - 2):
                    continue
                shapes.append((n, k, gone, 0, 0, tier))
                if n >= 2 and (tier == 'thorough' or gone in (0, 1, 2, 5)):
                    for pick in range(n):
                        for op in (1, 2, 4):
                            shapes.append((n, k, gone, op, pick, tier))
                if k == 1 or (k == 2 and gone == 0):
                    shapes.append((n, k, gone, 3, 0, tier))
    qs = []
    for i, (n, k, gone, op, pick, tier) in enumerate(shapes):
        for ordv in ((0, 1) if k == 2 else (0,)):
            qs.append(Q('seqkern_N%d_K%d%s_gone%d_op%d_pick%d' % (n, k, 'ba' if ordv else '', gone, op, pick), 'seq/kern.cpp', 14, tier=tier,
                        defs={'VF_N': n, 'VF_K': k, 'VF_ORD': ordv, 'VF_GONE': gone, 'VF_OP': op, 'VF_PICK': pick, 'VF_CLAIM': nn}, tv=(i % 7 == 0), timeout=300))
    return qs


SEQKERN_BOUND = ('seq/kern: N<=3 (quick) / 4 (thorough) real handles in 1..2 real sequences (with two sequences a handle sits at different positions in them, named in either order), every subset already retired, all 64-bit (L,H,count) per handle; '
                 'one of {query, retire_predecessors, retire, sequence destruction, handle destruction} at every position')


# thorough-tier shapes that died (memory) in the full thorough run with sixteen heavy queries at once; not re-tried one at a time: outside the claim
SEQSTEP_TOO_BIG = set(['seqstep_mb132_gone0_call1', 'seqstep_mb132_gone1_call0', 'seqstep_mb132_gone1_call2', 'seqstep_mb132_gone2_call1', 'seqstep_mb132_gone5_call0', 'seqstep_mb132_gone5_call2', 'seqstep_mb312_gone0_call2', 'seqstep_mb333_gone0_call1', 'seqstep_mb333_gone0_call2', 'seqstep_mb333_gone1_call0', 'seqstep_mb333_gone1_call2', 'seqstep_mb333_gone2_call1', 'seqstep_mb333_gone2_call2', 'seqstep_mb333_gone5_call0', 'seqstep_mb333_gone5_call2'])


def seqstep_queries(nn, quick_only=None):
    qs = []
    quick = [((1, 1, 1), 0, 1), ((1, 1, 1), 0, 2), ((1, 3, 2), 0, 2), ((1, 1, 1), 1, 1), ((1, 0, 1), 0, 2)]
    thorough = [((1, 1, 1), 0, 0), ((1, 1, 1), 1, 0), ((1, 1, 1), 2, 2), ((1, 3, 2), 0, 1), ((3, 3, 3), 0, 2), ((1, 0, 1), 0, 1), ((3, 1, 2), 0, 2)]
    for mb in ((1, 1, 1), (1, 3, 2), (3, 3, 3), (1, 0, 1), (3, 1, 2)):
        for gone in (0, 1, 2, 5):
            for call in (0, 1, 2):
                if (mb, gone, call) not in quick and (mb, gone, call) not in thorough: thorough.append((mb, gone, call))
    if quick_only is not None:
        quick, thorough = quick[:quick_only], quick[quick_only:]
    for tier, shapes in (('quick', quick), ('thorough', thorough)):
        for mb, gone, call in shapes:
            if 'seqstep_mb%d%d%d_gone%d_call%d' % (mb + (gone, call)) in SEQSTEP_TOO_BIG: continue
            qs.append(Q('seqstep_mb%d%d%d_gone%d_call%d' % (mb + (gone, call)), 'api/seqstep.cpp', 6, tier=tier,
                        defs={'VF_MB0': mb[0], 'VF_MB1': mb[1], 'VF_MB2': mb[2], 'VF_GONE': gone, 'VF_CALL': call, 'VF_CLAIM': nn}, timeout=1500, portfolio=True))
    return qs


def seqdeath2_queries(nn):
    qs = []
    for perm in itertools.permutations((1, 2, 3, 4)):
        qs.append(Q('seqdeath2_%d%d%d%d' % perm, 'api/seqdeath2.cpp', 6, defs={'VF_O1': perm[0], 'VF_O2': perm[1], 'VF_O3': perm[2], 'VF_O4': perm[3], 'VF_CLAIM': nn},
                    tv=(perm[0] == 2), sanitize=True, timeout=300))
    return qs


SEQSTEP_BOUND = ('api/seqstep: three real expectations f(0),f(1),f(2) each in a subset of two sequences, every retirement pattern in the tier, all 64-bit counters under the '
                 'forward-only invariant, one real call to each of them')


@prop('C05')
def c05():
    return dict(
        queries=find_queries() + seqkern_queries(5) + seqstep_queries(5) + [Q('seqdeath_K%d' % k, 'api/seqdeath.cpp', 6, defs={'VF_K': k, 'VF_CLAIM': 5}, timeout=900, portfolio=True) for k in (1, 2)] + seqdeath2_queries(5),
        level='model_checking',
        level_text='Bounded/inductive: cost/order/eligibility of real sequence handles equal the reference for every retirement pattern and all counters; one real call from an arbitrary invariant-satisfying state of three sequenced expectations: accepted iff every pending predecessor in every named sequence is satisfied, all predecessors are retired on a match, an ineligible match is exactly one fatal report and changes nothing.',
        bound=SEQKERN_BOUND + '; ' + SEQSTEP_BOUND,
        outside='sequenced REQUIRE_DESTRUCTION monitors are checked by seq/death (one shape family); call histories longer than one step follow from the invariant (argument)',
    )


@prop('C06')
def c06():
    return dict(
        queries=seqkern_queries(6) + seqstep_queries(6, quick_only=2) + plumb_queries(6, (14,)) + [Q('seqdeath_K%d' % k, 'api/seqdeath.cpp', 6, defs={'VF_K': k, 'VF_CLAIM': 6}, timeout=900) for k in (1, 2)],
        level='model_checking',
        level_text='Bounded: is_completed() iff every listed handle is satisfied, before and after a real call; sequence destruction reports once, non-fatally, exactly the listed expectations in registration order and detaches them; empty teardown is silent; released / saturated handles leave.',
        bound=SEQKERN_BOUND + '; ' + SEQSTEP_BOUND,
    )


# ------------------------------------------------------------------------------------------- C09
@prop('C09')
def c09():
    import gen
    files = gen.c09_files(os.path.join(GEN, 'C09'), CUR_TIER)
    qs = [Q(name, path, 18, timeout=600, tv=(k % 5 == 0)) for k, (name, path, n) in enumerate(files)]
    qs += [Q('capture_%d' % v, 'C09/capture.cpp', 6, defs={'VF_V': v}, timeout=300) for v in (0, 1, 2)]
    return dict(
        queries=qs,
        level='model_checking',
        level_text='Bounded: for every arity in the tier and every passing mode, every _k inside WITH/SIDE_EFFECT/RETURN is the caller\'s k-th argument (address identity for references / pointers, value for by-value with exactly one copy into the parameter), writes through references and pointers reach the caller, move-only arguments arrive unmoved, a returned reference aliases the caller\'s object; plain clauses see creation-time copies of locals, LR_ clauses the current value; const, overloaded and interface-implementing mock functions.',
        bound='arities {1,2,3,8,15} quick / 1..15 thorough x {value (copy-counting), &, const&, &&, pointer, unique_ptr by value, reference return}; all 32-bit values; straight-line (the clause records what it saw and accepts)',
        outside='arity 0 has no _k; THROW clauses; COM / STDMETHOD mocks',
    )


# ------------------------------------------------------------------------------------------- C10
@prop('C10')
def c10():
    import gen
    files = gen.c10_files(os.path.join(GEN, 'C10'), CUR_TIER, CUR_SEED)
    qs = [Q(name, path, 3, timeout=900, ncases=n, portfolio=True) for name, path, n in files] + [Q('re_null_guard', 'C10/re.cpp', 16, defs={'VF_CLAIM': 10}), Q('fp_order', 'C10/fp.cpp', 4, timeout=600), Q('mixed_plain', 'C10/mixed.cpp', 4, timeout=600)]
    return dict(
        queries=qs,
        level='model_checking',
        level_text='Bounded: param_matches(tree, x) equals the mathematical predicate for all 32-bit argument and operand values (and null / non-null pointers), for every matcher expression tree in the enumerated + drawn set of depth <= 3; the six ordering matchers on double agree with the built-in operators for every pair of 64-bit patterns (NaN, infinities, signed zeros), also typed, negated and under all_of / any_of (C10/fp.cpp); plain operands of another arithmetic type than the parameter (long long / double / int vs int / unsigned / bool, all bit patterns) decide as the built-in x == v (C10/mixed.cpp).',
        bound='expression trees of depth <=3 over eq/ne/lt/le/gt/ge (duck-typed and <int>), _, ANY(int), plain values, !, *, any_of/all_of/none_of with 1..3 operands, MEMBER_IS; all int values',
        outside='what the regular expression engine matches (libstdc++; re() is claimed only as: accepts iff the subject is non-null and the engine, replaced by an arbitrary verdict, finds the expression, with the subject range begin..begin+strlen, or data..data+length for a view-like subject of symbolic length); string operands',
    )


# ------------------------------------------------------------------------------------------- C11
@prop('C11')
def c11():
    import gen
    files = gen.c11_files(os.path.join(GEN, 'C11'), CUR_TIER)
    qs = [Q(name, path, 8, tier=t, timeout=900, portfolio=name.startswith('perm')) for name, path, t in files]
    return dict(
        queries=qs,
        level='model_checking',
        level_text='Bounded: range_is / starts_with / ends_with (element lists of values and of matchers, and range forms stored by copy or as a span) and range_all_of / any_of / none_of equal their definitions for all 32-bit element values on std::array, C arrays, std::vector and std::list of length <=3 (4) with element lists of length <=3; range_is_permutation / range_includes equal the multiset definition for value lists, and the documented first-fit/swap-remove assignment for overlapping matchers, over a 4-value alphabet (duplicates inside).',
        bound='ranges of length 0..3 quick / 0..4 thorough, element lists 0..3 (permutation / includes: 2), all int values (permutation / includes: values in 0..3 so that duplicates are frequent)',
        outside='std::deque, initializer-list ranges, a single plain element given to range_is_permutation / range_includes (selects the range-form overload; not a documented form)',
    )


# ------------------------------------------------------------------------------------------- C12
@prop('C12')
def c12():
    qs = [Q('lockop_%d' % op, 'C12/ops.cpp', 6, defs={'VF_OP': op, 'VF_CLAIM': 12}, lockinst=True, timeout=600) for op in range(1, 15)]
    # one preemption at a solver-chosen outermost acquisition of the mutex (C12/sched.cpp)
    qs += [Q('sched_%d' % sc, 'C12/sched.cpp', 6, defs={'VF_SC': sc, 'VF_CLAIM': 12, 'VF_SCHED': 1}, rtdefs={'VF_SCHED': 1},
             sanitize=True, timeout=600, portfolio=True) for sc in (1, 2, 3, 5, 6, 7, 8, 9)]
    qs += [Q('sched_4_at%d' % at, 'C12/sched.cpp', 6, defs={'VF_SC': 4, 'VF_CLAIM': 12, 'VF_SCHED': 1, 'VF_AT': at, 'VF_KMAX': 3}, rtdefs={'VF_SCHED': 1},
             sanitize=True, timeout=600, portfolio=True) for at in (0, 1, 2, 3)]
    return dict(
        queries=qs,
        level='other',
        level_text='(1) Schedules at critical-section granularity (C12/sched.cpp): thread B runs one API operation and thread A\'s operation is injected at a SOLVER-CHOSEN outermost acquisition of the global mutex by B (one preemption, A runs to completion); the outcome - reports, their kind and order, return values, query results - is one that running A and B one at a time can produce, no freed memory is touched (CBMC pointer checks; ASan natively), the lock is balanced. Scenes: release of a destruction requirement || destruction of the object (plain, sequenced); construction with bounds before IN_SEQUENCE || is_completed(); accepted sequenced calls || the queries; mock destruction || queries; release || the call it waits for; two calls on consecutive sequence steps. (2) Lock-discipline obligations per API operation, decided by bounded symbolic execution of the instrumented IR: the global mutex is constructed inside a thread-safe static initialisation, only that mutex object counts as the lock, every library function that touches state shared between threads (expectation lists, sequence lists, call counters, limits of an expectation already visible in a sequence, unlinking of linked elements; the lock-free lifetime_monitor queries as soon as they read memory other than through std::atomic) executes with the global recursive mutex held, and the mutex is balanced on every path including the exceptional one. From this it follows BY ARGUMENT (not by the solver) that conflicting accesses are ordered by the one mutex and each operation is a sequence of at most two critical sections. Schedules themselves are not explored.',
        technique='bounded symbolic execution (CBMC/SAT) of the IR of the real headers: (1) schedule harness with the injection point as a symbolic variable, (2) lock-instrumented IR with obligations at the entry of shared-state functions',
        bound='14 operations: accepted / rejected / sequenced call, creation with {IN_SEQUENCE, TIMES, RT_TIMES} in both orders, release (unsequenced, sequenced), is_satisfied/is_saturated, sequence::is_completed, REQUIRE_DESTRUCTION create/release, watched destruction (sequenced), mock destruction, release of a sequenced expectation that outlived its mock',
        outside='more than one preemption, more than two threads, thread A itself interrupted, randomised free-running schedules, std::atomic memory ordering of the died flag, custom mutex configurations, sequence-object destruction concurrent with use (caller obligation); beyond the one-preemption model a sequential symbolic executor cannot quantify over interleavings',
        assumptions=['vf/lockinst.py names the shared-state functions (listed in its header); private clause lists of an expectation under construction are not shared',
                     'single global recursive mutex modelled as a depth counter'],
    )


# ------------------------------------------------------------------------------------------- C15
def mismatch_queries(nn, quick_na=2, quick_ns=1):
    qs = []
    i = 0
    for na in range(0, 4):
        for ns in range(0, 3):
            if na + ns == 0 or na + ns > 4: continue
            for act in itertools.product(range(5), repeat=na):
                for sat in itertools.product(range(6), repeat=ns):
                    quick = (na <= quick_na and ns <= quick_ns) or (ns == 2 and na <= 1 and set(sat) <= {0, 5} and set(act) <= {0, 3})
                    if not quick and (hash((act, sat)) % 5): continue       # a fifth of the larger shapes in the thorough tier
                    oc = list(act) + list(sat)
                    defs = {'VF_NA': na, 'VF_NS': ns, 'VF_CLAIM': nn}
                    for k, v in enumerate(oc): defs['VF_C%d' % k] = v
                    qs.append(Q('mismatch_A%d_S%d_%s' % (na, ns, ''.join(map(str, oc))), 'C15/mismatch.cpp', 14, tier='quick' if quick else 'thorough',
                                defs=defs, tv=(i % 13 == 0), timeout=300))
                    i += 1
    return qs


@prop('C15')
def c15():
    qs = mismatch_queries(15)
    qs += [Q('dtor_order%d' % o, 'C04/dtor.cpp', 10, defs={'VF_ORDER': o, 'VF_CLAIM': 15}, timeout=600) for o in (0, 1, 4)]
    qs += [q for q in death_queries(15) if q['tier'] == 'quick' and len(q['name']) <= len('death_multi_12')]
    qs += plumb_queries(15, (13,)) + seqdeath2_queries(15) + seqstep_queries(15, quick_only=2) + [Q('seqdeath_K%d' % k, 'api/seqdeath.cpp', 6, defs={'VF_K': k, 'VF_CLAIM': 15}, timeout=900) for k in (1, 2)]
    return dict(
        queries=qs,
        level='model_checking',
        level_text='Bounded: the no-match report is one fatal report whose token structure is: header, arguments, then either exactly the matching saturated expectations or one Tried block per live expectation, newest first, with Expected lines for exactly the rejecting parameters or the Failed WITH line iff all parameters fit; end-of-life, lifetime and sequence reports carry the right severity and the expectation\'s location. Outcome patterns are shapes (concrete control); the solver contributes memory safety and the token bookkeeping.',
        bound='<=2 live + <=1 saturated expectations (quick), <=3 + <=2 (thorough, a fifth sampled), two parameters, two WITH clauses, every outcome pattern; severity obligations inside the C04, C13 and C05 harnesses',
        outside='text rendering of values (C18), forbidden-call report text',
    )


# ------------------------------------------------------------------------------------------- C17
def trace_shapes(maxlen):
    out = []
    for n in range(1, maxlen + 1):
        for seq in itertools.product((1, 2, 3, 4, 5, 6, 7, 8, 9), repeat=n):
            sp = seq.count(8) + seq.count(9) + seq.count(2)
            if n > 2 and maxlen <= 3 and (sp > 1 or (sp == 1 and len(set(seq) & {4, 5, 6, 7}) > 0 and seq.count(1) == 0)): continue
            d = 0; ok = True; calls = 0
            for o in seq:
                if o == 1:
                    d += 1
                    if d > 2: ok = False
                elif o == 3:
                    if d == 0: ok = False
                    d -= 1
                else: calls += 1
            if ok and calls >= 1 and seq[-1] != 1:
                out.append(seq)
    return out


@prop('C17')
def c17():
    qs = []
    seen = set()
    for tier, ml in (('quick', 3), ('thorough', 5)):
        for i, seq in enumerate(trace_shapes(ml)):
            if seq in seen: continue
            if tier == 'thorough' and len(seq) == 4 and (hash(seq) % 3): continue     # a third of the length-4 nestings
            if tier == 'thorough' and len(seq) == 5 and (hash(seq) % 16): continue    # a sixteenth of the length-5 nestings
            seen.add(seq)
            defs = {'VF_O%d' % (j + 1): (seq[j] if j < len(seq) else 0) for j in range(6)}
            defs['VF_CLAIM'] = 17
            qs.append(Q('trace_' + ''.join(map(str, seq)), 'C17/trace.cpp', 10, tier=tier, defs=defs, tv=(i % 10 == 0), timeout=300))
    return dict(
        queries=qs,
        level='model_checking',
        level_text='Bounded: for every nesting of up to 2 tracer lifetimes interleaved with up to 3 (5) accepted calls of the four kinds, each call delivers exactly one record to the innermost live tracer (none when no tracer lives), carrying the handler\'s location and text, the argument, and the returned value / what() / unknown-exception note, for all 32-bit argument and return values; the previous tracer is restored on destruction.',
        bound='op sequences of length <=3 (quick, with at most one nested-call / throwing-side-effect op) / <=5 (thorough: a third of length 4, a sixteenth of length 5) over {construct tracer, destroy innermost, value call, void call, THROW std exception, THROW int, call with a nested mock call in a side effect, call whose side effect throws}, nesting depth <=2',
        outside='stream_tracer formatting; recursion from side effects',
    )


# ------------------------------------------------------------------------------------------- C18
@prop('C18')
def c18():
    qs = []
    for t in (0, 2, 3, 4, 5, 6, 7, 8, 9):
        qs.append(Q('print_T%d' % t, 'C18/print.cpp', 45, defs={'VF_T': t}, timeout=300))
    quick_sizes = (1, 2, 7, 8, 9, 15, 16, 17, 31, 32, 33, 40)
    for sz in range(1, 41):
        qs.append(Q('hexdump_size%d' % sz, 'C18/print.cpp', 45, tier='quick' if sz in quick_sizes else 'thorough',
                    defs={'VF_T': 1, 'VF_SIZE': sz}, tv=(sz % 8 == 1), timeout=300))
    return dict(
        queries=qs,
        level='model_checking',
        level_text='Bounded: print() on a stream with arbitrary prior (width<=64, any flags, any fill): leaves are inserted decimal/unpadded, the hex dump inserts exactly sizeof(T) bytes in order with the documented line breaks, null pointers print nullptr without dereference, pairs/tuples/collections are element-wise, printer<T> wins, and the prior state is restored after leaf / hex-dump prints.',
        bound='int, opaque structs of 1..40 bytes (12 sizes quick, all thorough), char const*, int*, unique_ptr<int>, nullptr_t, pointer to data member, user null-comparable objects (bool and non-bool operator==, alone and inside a pair), pair, tuple<3>, nested pair with null, std::array<3>, C array, empty array, printer<T> (also for a pointer type, null and non-null); all values/bytes; all flags, fill, width<=64',
        outside='node-based containers, std::string values, real character rendering (the token model records what is inserted and with which stream state; the native build compares exact text on replayed vectors)',
        assumptions=['stream model rt/strings.inc: insertion tokens + (width, flags, fill) triple; formatted insertion resets width'],
    )


# ------------------------------------------------------------------------------------------- C16
@prop('C16')
def c16():
    return dict(
        queries=stack_queries(16) + plumb_queries(16, (6, 7, 11)) + [Q('actions_W%d_S%d_mode%d_at%d_b%d' % (w, se, mode, at, b), 'C08/actions.cpp', 6, defs={'VF_W': w, 'VF_S': se, 'VF_MODE': mode, 'VF_AT': at, 'VF_B': b, 'VF_CLAIM': 16}) for w, se, mode, at, b in ((0, 1, 2, 0, 0), (1, 3, 2, 1, 1), (0, 2, 1, 0, 0), (1, 1, 0, 0, 1), (0, 1, 3, 0, 0))] + seqstep_queries(16, quick_only=2) + [Q('set_reporter', 'C16/setrep.cpp', 6, defs={'VF_CLAIM': 16}, timeout=600), Q('dtor_order5', 'C04/dtor.cpp', 10, defs={'VF_ORDER': 5, 'VF_CLAIM': 16}, timeout=900, portfolio=True)],
        level='model_checking',
        level_text='Bounded: exactly one OK report per accepted call carrying the handling expectation\'s text; none for rejected/forbidden calls.',
        bound=STACK_BOUND,
    )


# ------------------------------------------------------------------------------------------- C20
@prop('C20')
def c20():
    qs = []
    i = 0
    for eager in (0, 1):
        for y in (0, 1, 2, 3):
            for end in (0, 1, 2):
                for calls in (1, 2):
                    for rfirst in (0, 1):
                        if rfirst and (y == 0 or calls == 2): continue
                        qs.append(Q('co_eager%d_y%d_end%d_calls%d%s' % (eager, y, end, calls, '_retfirst' if rfirst else ''), 'C20/co.cpp', 8, std='c++20',
                                    defs={'VF_EAGER': eager, 'VF_Y': y, 'VF_END': end, 'VF_CALLS': calls, 'VF_RFIRST': rfirst, 'VF_CLAIM': 20}, tv=(i % 6 == 0), timeout=600))
                        i += 1
    # a CO_YIELD clause (not the first) whose expression throws: earlier yields are delivered, then the exception where the result is taken
    for eager in (0, 1):
        for y, yt in ((2, 1), (3, 1), (3, 2)):
            qs.append(Q('co_eager%d_y%d_yieldthrows%d' % (eager, y, yt), 'C20/co.cpp', 8, std='c++20',
                        defs={'VF_EAGER': eager, 'VF_Y': y, 'VF_END': 0, 'VF_CALLS': 1, 'VF_RFIRST': 0, 'VF_YT': yt, 'VF_CLAIM': 20}, timeout=600))
    # the CO_RETURN expression reads a by-copy capture with a destructive move constructor; two calls, each run to its end
    for eager in (0, 1):
        for y in (0, 2):
            qs.append(Q('co_eager%d_y%d_movable_capture' % (eager, y), 'C20/co.cpp', 8, std='c++20',
                        defs={'VF_EAGER': eager, 'VF_Y': y, 'VF_END': 0, 'VF_CALLS': 2, 'VF_RFIRST': 0, 'VF_MV': 1, 'VF_CLAIM': 20}, timeout=600))
    return dict(
        queries=qs,
        level='model_checking',
        level_text='Bounded: for a harness-local coroutine type with lazy and with eager start, 0..3 CO_YIELD clauses, CO_RETURN(value) / CO_THROW / throwing CO_RETURN expression, one or two calls handled by the same expectation and resumed interleaved: matching, counting and SIDE_EFFECT happen at the call; the coroutine yields the clause values in declaration order, then the return value, or raises the exception where the result is taken and never at the call; the coroutines of two calls are independent; all 32-bit clause values; coroutine frames are heap objects under CBMC pointer checks.',
        bound='clause lists with 0..3 CO_YIELD x 3 endings x eager/lazy x 1..2 calls, the ending clause written after or before the yields (66 shapes), a throwing CO_YIELD clause at position 1..2 (6 shapes), a CO_RETURN expression reading a by-copy capture with a destructive move constructor over two calls (4 shapes); clause expressions touch the call arguments only where they are alive (first clause of an eager coroutine), per the documented lifetime caveat',
        outside='generator-shaped (range) return types, std::generator (not in this libstdc++), void coroutines, CO_YIELD on move-only values',
        assumptions=['C++20 lowering of coroutines by clang-14 (CoroSplit at -O1) is what is executed'],
    )


def queries(pid, tier, seed=1):
    global CUR_TIER, CUR_SEED
    CUR_TIER, CUR_SEED = tier, seed
    sp = PROPS[pid]()
    return [q for q in sp['queries'] if tier == 'thorough' or q['tier'] == 'quick']


COMMON_TRUST = [
    'clang++-14 front end and its -O1 pipeline (the IR is what is executed symbolically, not the C++ source)',
    'vf/ll2c.py IR->C translator (validated on every run: generated C vs native g++ build on random choice vectors)',
    'rt/rt.c environment model: libstdc++ strings/streams/mutex/exceptions replaced at API level (DESIGN.md section 4)',
    'cbmc 6.11.0 + its SAT back end; --no-malloc-may-fail (allocation failure outside the claim)',
]


def write_evidence(pid, tier, seed, recs, wall, nviol, known_hits):
    sp = PROPS[pid]()
    decided = [r for r in recs if r['status'] in ('HELD', 'VIOLATED')]
    nontrivial = [r for r in decided if r.get('witnesses', 0) > 0]
    fns = sorted(set(f for r in recs for f in r.get('functions_encoded', [])))
    samples = []
    for r in recs[:6]:
        samples.append(dict(query=r['name'], harness=r['src'], shape=r['defs'], unwind=r['unwind'], status=r['status'],
                            cbmc_properties=r.get('n_properties'), solver_s=r.get('solver_s'), wall_s=r.get('wall_s')))
    ev = dict(
        property_id=pid, tier=tier, seed=seed, level=sp.get('level', 'model_checking'),
        coverage=dict(
            evaluations=len(recs),
            distinct_nontrivial=len(set(r['name'] for r in nontrivial)),
            rule='one evaluation = one solver query (harness x shape x unwind bound) over the IR of the real headers; '
                 'counted non-trivial only if it got a verdict AND its reachability witness (assert(0) at the end of the '
                 'harness) was refuted by the solver, i.e. the assumptions are satisfiable and the assertions reachable',
            samples=samples,
            obligations=len(recs), discharged=sum(1 for r in recs if r['status'] == 'HELD'),
            checker_cmd=next((r['cmd'] for r in recs if r.get('cmd')), 'cbmc'),
            trusted_base=COMMON_TRUST,
            traces_validated_against_impl=sum(r.get('tv_runs', 0) for r in recs) + sum(len(r['violations']) for r in recs),
            states=sum(r.get('n_properties') or 0 for r in recs) or 1,
            transitions=len(recs) or 1,
            bound=sp.get('bound', ''),
            outside_bound=sp.get('outside', ''),
            functions_encoded=fns,
            solver_time_s=round(sum(r.get('solver_s') or 0 for r in recs), 2),
            cbmc_wall_s=round(sum(r.get('cbmc_wall_s') or 0 for r in recs), 2),
            queries=[dict(name=r['name'], status=r['status'], unwind=r['unwind'], shape=r['defs'], properties=r.get('n_properties'),
                          solver_s=r.get('solver_s'), wall_s=r.get('wall_s'), notes=r['notes'],
                          violations=[dict(obligation=v['assert_id'], reproduced=v['reproduced'], values=v['values'][:24]) for v in r['violations']])
                     for r in recs],
            inconclusive=[r['name'] for r in recs if r['status'] in ('FAULT', 'INCONCLUSIVE')],
            known_findings_hit=[dict(query=rec['name'], obligation=v['assert_id'], what=k['what']) for k, rec, v in known_hits],
            explanation='bounded symbolic execution (CBMC) of C generated from the LLVM IR clang-14 emits for the real trompeloeil '
                        'headers; states = CBMC properties (harness obligations + generated pointer/bounds checks) checked, '
                        'transitions = solver queries; nothing here is an unbounded proof',
            exhaustive=False,
        ),
        assumptions=sp.get('assumptions', []) + ['unwind bounds carry --unwinding-assertions'],
        wall_s=round(wall, 2),
        violations=nviol,
    )
    os.makedirs(os.path.join(VERIF, 'evidence'), exist_ok=True)
    json.dump(ev, open(os.path.join(VERIF, 'evidence', pid + '.json'), 'w'), indent=1)
