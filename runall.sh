#!/bin/sh
# runall.sh [tier] -- run every registered check once (writes evidence/<id>.json); prints one summary line per property
TIER=${1:-quick}
cd "$(dirname "$0")"
for p in $(python3 -c "import specs; print(' '.join(sorted(p for p in specs.PROPS if not specs.PROPS[p]().get('not_applicable'))))"); do
  /usr/bin/time -f "$p wall=%e rc=%x" ./check $p --tier $TIER 2>&1 | grep -v "HELD  " | cut -c1-400
done
