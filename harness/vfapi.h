// vfapi.h -- shared scaffolding for API-level harnesses: recording reporter, access to private state.
// Compiled with -fno-access-control (harness TU only), so counters can be read/poked directly.
#ifndef VFAPI_H
#define VFAPI_H
#include "verif.h"
#include <trompeloeil.hpp>

struct vf_reported {};
// The recording reporter keeps only scalars (count, first and last report): an array indexed by a symbolic
// counter would be expanded element-wise by the symbolic executor on every merged path.
struct vf_report { int fatal; char const *file; unsigned long line; unsigned mask; unsigned long ord; unsigned nmask; unsigned long nord; };
#define VF_MAXNEEDLE 8
static vf_report   vf_first, vf_last;      // first and most recent violation report
static unsigned    vf_nreports, vf_nfatal;
static unsigned    vf_first_cnt[16];       // first report: occurrences per watched string (concrete indices only)
static char const *vf_ok_names[4];         // texts the harness wants OK reports classified against
static unsigned    vf_nok_names;
static int         vf_ok_last = -2;        // last OK report: index of the registered text it carries, -1 if none of them
static unsigned    vf_nok;
static unsigned    vf_nneedles, vf_nnums;  // watched strings / numbers registered through vf_needle / vf_num
static bool        vf_want_ord;            // compute vf_report::ord (quadratic in the number of watched strings)
static unsigned    vf_seq;                 // global event counter: reports, OK reports and harness log share one order
static unsigned    vf_first_seq, vf_last_seq, vf_ok_seq;

// register a watched string / number; returns its bit in vf_report::mask / nmask
inline unsigned vf_needle(char const *s) { unsigned i = verif_watch_str(s); vf_nneedles = i + 1; return 1u << i; }
// same, returning the watch index
inline unsigned vf_watch(char const *s) { unsigned i = verif_watch_str(s); vf_nneedles = i + 1; return i; }
inline unsigned vf_watchn(unsigned long v) { unsigned i = verif_watch_num(v); vf_nnums = i + 1; return i; }
inline unsigned vf_num(unsigned long v) { unsigned i = verif_watch_num(v); vf_nnums = i + 1; return 1u << i; }
// bit of "watched string i first occurs before watched string j" in vf_report::ord
inline unsigned long vf_ord(unsigned i, unsigned j) { return 1ul << (i * 8 + j); }

namespace trompeloeil {
template <>
struct reporter<specialized>
{
  static void send(severity s, char const *file, unsigned long line, char const *msg)
  {
    unsigned mask = 0, nmask = 0; unsigned long ord = 0;
    for (unsigned i = 0; i < vf_nneedles; ++i)
    {
      if (verif_msg_cnt(msg, i) != 0) mask |= 1u << i;
      if (vf_want_ord && i < 8)   // order bits exist for the first 8 watched strings
        for (unsigned j = 0; j < vf_nneedles && j < 8; ++j)
          if (i != j && verif_msg_before(msg, i, j)) ord |= vf_ord(i, j);
    }
    unsigned long nord = 0;
    for (unsigned i = 0; i < vf_nnums; ++i)
    {
      if (verif_msg_ncnt(msg, i) != 0) nmask |= 1u << i;
      if (vf_want_ord)
        for (unsigned j = 0; j < vf_nnums; ++j)
          if (i != j && verif_msg_nbefore(msg, i, j)) nord |= vf_ord(i, j);
    }
    vf_last.fatal = s == severity::fatal; vf_last.file = file; vf_last.line = line; vf_last.mask = mask; vf_last.ord = ord; vf_last.nmask = nmask; vf_last.nord = nord;
    vf_last_seq = ++vf_seq;
    if (vf_nreports == 0) { vf_first = vf_last; vf_first_seq = vf_last_seq; for (unsigned i = 0; i < vf_nneedles; ++i) vf_first_cnt[i] = verif_msg_cnt(msg, i); }
    ++vf_nreports;
    if (s == severity::fatal) { ++vf_nfatal; throw vf_reported{}; }
  }
  static void sendOk(char const *msg)
  {
    int idx = -1;   // msg points into a temporary: classify now
    for (unsigned i = 0; i < vf_nok_names; ++i)
      if (idx < 0 && verif_str_eq(msg, vf_ok_names[i])) idx = (int)i;
    vf_ok_last = idx;
    vf_ok_seq = ++vf_seq;
    ++vf_nok;
  }
};
}

template <typename Sig, typename... V>
using vf_cm_t = trompeloeil::call_matcher<Sig, std::tuple<V...>>;

template <typename CM, typename T>
inline CM *vf_cm(std::unique_ptr<T> &e) { return static_cast<CM *>(e.get()); }

inline void vf_poke(trompeloeil::sequence_handler_base &h, size_t L, size_t H, size_t c)
{
  h.min_calls = L; h.max_calls = H; h.call_count = c;
}
#endif
