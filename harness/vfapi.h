// vfapi.h -- shared scaffolding for API-level harnesses: recording reporter, access to private state.
// Compiled with -fno-access-control (harness TU only), so counters can be read/poked directly.
#ifndef VFAPI_H
#define VFAPI_H
#include "verif.h"
#include <trompeloeil.hpp>

struct vf_reported {};
struct vf_report { int fatal; char const *file; unsigned long line; unsigned mask; };
#define VF_MAXREP 8
#define VF_MAXNEEDLE 8
static vf_report   vf_reports[VF_MAXREP];
static unsigned    vf_nreports;
static char const *vf_ok_names[VF_MAXREP]; // texts the harness wants OK reports classified against
static unsigned    vf_nok_names;
static int         vf_ok_idx[VF_MAXREP];   // per OK report: index of the registered text it carries, or -1
static unsigned    vf_nok;
static char const *vf_needles[VF_MAXNEEDLE];
static unsigned    vf_nneedles;
static unsigned    vf_lock_at_report;      // unused natively

inline unsigned vf_needle(char const *s) { vf_needles[vf_nneedles] = s; return 1u << vf_nneedles++; }

namespace trompeloeil {
template <>
struct reporter<specialized>
{
  static void send(severity s, char const *file, unsigned long line, char const *msg)
  {
    unsigned mask = 0;
    for (unsigned i = 0; i < vf_nneedles; ++i)
      if (verif_msg_has(msg, vf_needles[i])) mask |= 1u << i;
    if (vf_nreports < VF_MAXREP)
    {
      vf_reports[vf_nreports].fatal = s == severity::fatal;
      vf_reports[vf_nreports].file = file;
      vf_reports[vf_nreports].line = line;
      vf_reports[vf_nreports].mask = mask;
    }
    ++vf_nreports;
    if (s == severity::fatal) throw vf_reported{};
  }
  static void sendOk(char const *msg)
  {
    int idx = -1;   // msg points into a temporary: classify now
    for (unsigned i = 0; i < vf_nok_names; ++i)
      if (idx < 0 && verif_str_eq(msg, vf_ok_names[i])) idx = (int)i;
    if (vf_nok < VF_MAXREP) vf_ok_idx[vf_nok] = idx;
    ++vf_nok;
  }
};
}

template <typename Sig, typename... V>
using vf_cm_t = trompeloeil::call_matcher<Sig, std::tuple<V...>>;

template <typename CM, typename T>
inline CM *vf_cm(std::unique_ptr<T> &e) { return static_cast<CM *>(e.get()); }

inline void vf_poke(trompeloeil::sequence_handler_base &h, size_t L, size_t H, size_t c)
{
  h.min_calls = L; h.max_calls = H; h.call_count = c;
}
#endif
