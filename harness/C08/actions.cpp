// C08 K-actions: one real expectation with VF_W WITH clauses and VF_S SIDE_EFFECT clauses (each logs its id; each WITH
// returns an arbitrary bool), then RETURN / THROW / a throwing side effect; an older shadowed expectation whose
// side effect and RETURN must never run while the newer one handles the call.
//   VF_MODE 0: RETURN(value)   1: THROW(int)   2: side effect #VF_AT throws   3: void function (no RETURN)
// log = base-8 digits: WITH i -> 1+i, SIDE_EFFECT j -> 4+j, RETURN/THROW expression -> 7, older expectation's clauses -> 0 after a 7 7 marker never expected
#include "vfapi.h"
#ifndef VF_W
#define VF_W 2
#endif
#ifndef VF_S
#define VF_S 2
#endif
#ifndef VF_MODE
#define VF_MODE 0
#endif
#ifndef VF_AT
#define VF_AT 0
#endif
#ifndef VF_B
#define VF_B 7
#endif
struct user_exc { int v; };
struct M
{
#line 100
  MAKE_MOCK1(f, int(int));
#line 110
  MAKE_MOCK1(g, void(int));
};
static unsigned long vf_logv; static unsigned vf_nlog, vf_old_ran;
static bool logit(unsigned d) { vf_logv = vf_logv * 8 + d; ++vf_nlog; return true; }
static void se(unsigned j) { logit(4 + j); if (VF_MODE == 2 && j == VF_AT) throw user_exc{(int)j}; }
#if VF_W > 0
#define W0 .LR_WITH(logit(1) && b[0])
#else
#define W0
#endif
#if VF_W > 1
#define W1 .LR_WITH(logit(2) && b[1])
#else
#define W1
#endif
#if VF_W > 2
#define W2 .LR_WITH(logit(3) && b[2])
#else
#define W2
#endif
#if VF_S > 0
#define S0 .LR_SIDE_EFFECT(se(0))
#else
#define S0
#endif
#if VF_S > 1
#define S1 .LR_SIDE_EFFECT(se(1))
#else
#define S1
#endif
#if VF_S > 2
#define S2 .LR_SIDE_EFFECT(se(2))
#else
#define S2
#endif

extern "C" void harness(void)
{
  M m;
  // WITH outcomes are a compile-time shape (VF_B bit i = clause i accepts): the clause order / short-circuit logic is
  // control flow, the values (argument, returned / thrown value) are the solver's
  bool b[3]; for (int i = 0; i < 3; ++i) b[i] = ((VF_B >> i) & 1) != 0;
  int x = (int)verif_nondet_uint(), rv = (int)verif_nondet_uint();
  // the older expectation accepts everything; its actions must stay silent while the newer one takes the call
#if VF_MODE == 3
#line 200
  auto old = NAMED_ALLOW_CALL(m, g(trompeloeil::_)).LR_SIDE_EFFECT(++vf_old_ran);
#line 210
  auto e = NAMED_REQUIRE_CALL(m, g(trompeloeil::_)) W0 W1 W2 S0 S1 S2;
#else
#line 220
  auto old = NAMED_ALLOW_CALL(m, f(trompeloeil::_)).LR_SIDE_EFFECT(++vf_old_ran).LR_RETURN((++vf_old_ran, -5));
#if VF_MODE == 1
#line 230
  auto e = NAMED_REQUIRE_CALL(m, f(trompeloeil::_)) W0 W1 W2 S0 S1 S2 .LR_THROW((logit(7), user_exc{rv}));
#else
#line 240
  auto e = NAMED_REQUIRE_CALL(m, f(trompeloeil::_)) W0 W1 W2 S0 S1 S2 .LR_RETURN((logit(7), rv));
#endif
#endif
#line 300
  int first_false = VF_W;
  for (int i = VF_W - 1; i >= 0; --i) if (!b[i]) first_false = i;
  bool newer_matches = first_false == VF_W;
  int r = 0; bool threw_user = false, threw_report = false; int uv = -1;
  try {
#if VF_MODE == 3
    m.g(x);
#else
    r = m.f(x);
#endif
  }
  catch (user_exc &u) { threw_user = true; uv = u.v; }
  catch (vf_reported &) { threw_report = true; }
  VCLAIM(8, !threw_report && vf_nreports == 0, "C08.some_expectation_accepts");
  VCLAIM(16, vf_nok == 1, "C16.exactly_one_ok_report_for_an_accepted_call_whatever_its_actions_do");
  // expected log
  unsigned long want = 0; unsigned nwant = 0;
  for (int i = 0; i < VF_W && i <= first_false; ++i) { want = want * 8 + (1 + i); ++nwant; }   // WITH: declaration order, stop at first false
  if (newer_matches)
  {
    int last = VF_S;
    if (VF_MODE == 2) last = VF_AT + 1;
    for (int j = 0; j < last; ++j) { want = want * 8 + (4 + j); ++nwant; }                        // side effects in order, once each
    if (VF_MODE == 0 || VF_MODE == 1) { want = want * 8 + 7; ++nwant; }                           // then RETURN / THROW, once
  }
  VCLAIM(8, vf_nlog == nwant, "C08.clause_evaluation_count");
  VCLAIM(8, vf_logv == want, "C08.clause_evaluation_order");
  if (newer_matches)
  {
    VCLAIM(8, vf_old_ran == 0, "C08.other_expectations_actions_do_not_run");
    VCLAIM(8, e->is_saturated() && e->is_satisfied(), "C08.call_counts_even_if_it_throws");
#if VF_MODE == 0
    VCLAIM(8, !threw_user && r == rv, "C08.return_value_reaches_caller");
#elif VF_MODE == 1
    VCLAIM(8, threw_user && uv == rv, "C08.thrown_value_reaches_caller");
#elif VF_MODE == 2
    VCLAIM(8, threw_user && uv == VF_AT, "C08.side_effect_exception_propagates");
#endif
  }
  else
  {
    // the newer one rejected the call through its WITH clauses: the older one handles it, the newer one is untouched
    VCLAIM(8, !e->is_satisfied() && !e->is_saturated(), "C08.rejecting_expectation_untouched");
    VCLAIM(1, !e->is_satisfied() && !e->is_saturated() && vf_logv == want, "C01.expectation_with_a_failing_WITH_does_not_take_the_call");
#if VF_MODE == 3
    VCLAIM(8, vf_old_ran == 1, "C08.fallback_side_effect_once");
#else
    VCLAIM(8, vf_old_ran == 2 && r == -5 && !threw_user, "C08.fallback_handles_call");
#endif
  }
  vf_poke(*e->sequences, 0, 1, e->sequences->get_calls());
  verif_reach();
}
