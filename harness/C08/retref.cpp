// C08: RETURN for a function returning a reference: the caller gets "that very object" -- the copy stored in the
// expectation when the clause was written (plain RETURN) or the caller's own variable (LR_RETURN) -- on every call,
// without further copies.
#include "vfapi.h"
struct counted
{
  int v;
  static unsigned copies;
  explicit counted(int x) : v(x) {}
  counted(counted const &o) : v(o.v) { ++copies; }
  counted &operator=(counted const &) = delete;
};
unsigned counted::copies;
struct M
{
#line 100
  MAKE_MOCK1(f, counted const &(int));
#line 110
  MAKE_MOCK1(g, counted const &(int));
#line 120
  MAKE_MOCK1(p, int const *(int));
};
extern "C" void harness(void)
{
  int x = (int)verif_nondet_uint(), v = (int)verif_nondet_uint();
  { auto l = trompeloeil::get_lock(); }
  M m;
  counted local(v);
  int cell = v;
  int const *cp = &cell;
#line 200
  auto e1 = NAMED_ALLOW_CALL(m, f(ANY(int))).RETURN(local);        // stored by copy when the clause is written
#line 210
  auto e2 = NAMED_ALLOW_CALL(m, g(ANY(int))).LR_RETURN(local);     // the caller's own object
#line 220
  auto e3 = NAMED_ALLOW_CALL(m, p(ANY(int))).RETURN(cp);
  unsigned c0 = counted::copies;
  counted const &a = m.f(x);
  counted const &b = m.f(x + 1);
  VCLAIM(8, &a == &b && &a != &local, "C08.reference_return_is_the_same_stored_object_on_every_call");
  VCLAIM(8, counted::copies == c0, "C08.reference_return_makes_no_copy_per_call");
  VCLAIM(8, a.v == v && b.v == v, "C08.reference_return_carries_the_value_given_in_the_clause");
  counted const &c = m.g(x);
  VCLAIM(8, &c == &local && counted::copies == c0, "C08.LR_RETURN_reference_is_the_callers_object");
  VCLAIM(8, m.p(x) == &cell && m.p(x) == &cell, "C08.pointer_return_value_unchanged");
  VCLAIM(8, vf_nreports == 0, "C08.quiet");
  verif_reach();
}
