// C20 P-co: a mocked function returning a coroutine type.  Harness-local minimal coroutine type co<T> with lazy
// (VF_EAGER 0) or eager (VF_EAGER 1) start; VF_Y CO_YIELD clauses (0..3); VF_END: 0 CO_RETURN(value), 1 CO_THROW(int),
// 2 CO_RETURN expression that throws.  VF_CALLS 1 or 2 calls handled by the same expectation, resumed interleaved.
// Obligations: matching / counting / SIDE_EFFECT happen at the call, before any resume; the coroutine then produces the
// yields in declaration order, then the return value, or raises the exception where the result is taken, not at the call;
// coroutines from two calls are independent.
#include "vfapi.h"
#include <coroutine>
#ifndef VF_EAGER
#define VF_EAGER 0
#endif
#ifndef VF_Y
#define VF_Y 2
#endif
#ifndef VF_END
#define VF_END 0
#endif
#ifndef VF_CALLS
#define VF_CALLS 1
#endif
#ifndef VF_RFIRST
#define VF_RFIRST 0      /* 1: the CO_RETURN / CO_THROW clause is written BEFORE the CO_YIELD clauses (any clause order is legal) */
#endif
template <typename T>
struct co
{
  struct promise_type
  {
    T cur{}; T ret{}; bool has_ret = false, has_exc = false; int exc = 0; unsigned yields = 0;
    co get_return_object() { return co{std::coroutine_handle<promise_type>::from_promise(*this)}; }
#if VF_EAGER
    std::suspend_never initial_suspend() noexcept { return {}; }
#else
    std::suspend_always initial_suspend() noexcept { return {}; }
#endif
    std::suspend_always final_suspend() noexcept { return {}; }
    std::suspend_always yield_value(T v) { cur = v; ++yields; return {}; }
    void return_value(T v) { ret = v; has_ret = true; }
    void unhandled_exception() { try { throw; } catch (int v) { exc = v; has_exc = true; } }
  };
  using handle = std::coroutine_handle<promise_type>;
  explicit co(handle h_) : h(h_) {}
  co(co &&o) noexcept : h(o.h) { o.h = nullptr; }
  co(co const &) = delete;
  ~co() { if (h) h.destroy(); }
  // awaitable surface (lets trompeloeil see the value type); the harness drives it by hand
  bool await_ready() const noexcept { return h.done(); }
  void await_suspend(std::coroutine_handle<>) const noexcept {}
  T await_resume() { if (h.promise().has_exc) throw h.promise().exc; return h.promise().ret; }
  bool step() { if (!h.done()) h.resume(); return !h.done(); }       // true: suspended at a yield
  handle h;
};
struct M
{
#line 100
  MAKE_MOCK1(f, co<int>(int));
};
// _1 is only used where the call's parameters are certainly alive: the first clause of an eagerly started coroutine runs
// during the call.  (Clauses evaluated on a later resume must not touch the arguments: documented lifetime caveat.)
#if VF_Y > 0 && VF_EAGER
#define Y0 .CO_YIELD(y0 + _1)
#elif VF_Y > 0
#define Y0 .CO_YIELD(y0)
#else
#define Y0
#endif
#ifndef VF_YT
#define VF_YT (-1)       /* index (>= 1) of a CO_YIELD clause whose expression throws; the earlier yields are delivered first */
#endif
#if VF_Y > 1 && VF_YT == 1
#define Y1 .CO_YIELD(thrower(y1))
#elif VF_Y > 1
#define Y1 .CO_YIELD(y1)
#else
#define Y1
#endif
#if VF_Y > 2 && VF_YT == 2
#define Y2 .CO_YIELD(thrower(y2))
#elif VF_Y > 2
#define Y2 .CO_YIELD(y2)
#else
#define Y2
#endif
static int thrower(int v) { throw v; }
// a value with a destructive move: captured by copy in a clause, it must serve every call the expectation handles
struct movable_val
{
  int v;
  explicit movable_val(int x) : v(x) {}
  movable_val(movable_val const &o) : v(o.v) {}
  movable_val(movable_val &&o) noexcept : v(o.v) { o.v = -12345; }
};

// drives one coroutine to completion and checks what it produces
static void drain(co<int> &c, int x, int y0, int y1, int y2, int rv, char const *)
{
  int want[3] = {VF_EAGER ? y0 + x : y0, y1, y2};
#if VF_YT >= 1
  // the clause at index VF_YT throws when it is evaluated: the yields before it are produced first, then the coroutine
  // ends with that exception, which surfaces where the result is taken
  int k = 0;
#if VF_EAGER
  for (; k < VF_YT; ++k)
  {
    VCLAIM(20, !c.h.done() && c.h.promise().yields == (unsigned)k + 1 && c.h.promise().cur == want[k], "C20.yields_before_a_throwing_clause_are_delivered");
    c.step();
  }
#else
  VCLAIM(20, c.h.promise().yields == 0 && !c.h.promise().has_exc, "C20.lazy_coroutine_evaluates_nothing_at_the_call");
  for (; k < VF_YT; ++k)
  {
    bool susp = c.step();
    VCLAIM(20, susp && c.h.promise().yields == (unsigned)k + 1 && c.h.promise().cur == want[k], "C20.yields_before_a_throwing_clause_are_delivered");
  }
  c.step();
#endif
  VCLAIM(20, c.h.done() && c.h.promise().yields == VF_YT, "C20.coroutine_ends_at_the_throwing_clause");
  bool threw = false; int ev = 0;
  try { (void)c.await_resume(); } catch (int v) { threw = true; ev = v; }
  VCLAIM(20, threw && ev == want[VF_YT], "C20.exception_of_a_throwing_clause_surfaces_where_the_result_is_taken");
  (void)rv;
#else
#if VF_EAGER
  int k = 0;
  // an eagerly started coroutine is already suspended at its first yield (or done)
  for (; k < VF_Y; ++k)
  {
    VCLAIM(20, !c.h.done() && c.h.promise().yields == (unsigned)k + 1 && c.h.promise().cur == want[k], "C20.yields_in_declaration_order");
    c.step();
  }
#else
  VCLAIM(20, c.h.promise().yields == 0 && !c.h.promise().has_ret && !c.h.promise().has_exc, "C20.lazy_coroutine_evaluates_nothing_at_the_call");
  for (int k = 0; k < VF_Y; ++k)
  {
    bool susp = c.step();
    VCLAIM(20, susp && c.h.promise().yields == (unsigned)k + 1 && c.h.promise().cur == want[k], "C20.yields_in_declaration_order");
  }
  c.step();
#endif
  VCLAIM(20, c.h.done() && c.h.promise().yields == VF_Y, "C20.completes_after_the_last_yield");
  bool threw = false; int got = 0, ev = 0;
  try { got = c.await_resume(); } catch (int v) { threw = true; ev = v; }
#if VF_END == 0
  VCLAIM(20, !threw && got == rv, "C20.co_return_value_after_yields");
#else
  VCLAIM(20, threw && ev == rv, "C20.exception_surfaces_where_the_result_is_taken");
#endif
#endif
}

extern "C" void harness(void)
{
  M m;
  int x = (int)verif_nondet_uint(), x2 = (int)verif_nondet_uint();
  int y0 = (int)verif_nondet_uint(), y1 = (int)verif_nondet_uint(), y2 = (int)verif_nondet_uint(), rv = (int)verif_nondet_uint();
  unsigned effects = 0;
#line 200
#ifndef VF_MV
#define VF_MV 0          /* 1: the CO_RETURN expression reads a by-copy captured object whose move constructor empties its source */
#endif
  movable_val mvv(rv);
  (void)mvv;
#if VF_END == 0 && VF_MV
#define ENDCLAUSE .CO_RETURN(mvv.v)
#elif VF_END == 0
#define ENDCLAUSE .CO_RETURN(rv)
#elif VF_END == 1
#define ENDCLAUSE .CO_THROW(rv)
#else
#define ENDCLAUSE .CO_RETURN(thrower(rv))
#endif
#if VF_RFIRST
  auto e = NAMED_REQUIRE_CALL(m, f(ANY(int))).TIMES(VF_CALLS).LR_SIDE_EFFECT(++effects) ENDCLAUSE Y0 Y1 Y2;
#else
  auto e = NAMED_REQUIRE_CALL(m, f(ANY(int))).TIMES(VF_CALLS).LR_SIDE_EFFECT(++effects) Y0 Y1 Y2 ENDCLAUSE;
#endif
#line 300
  bool threw_at_call = false;
  try
  {
    co<int> c1 = m.f(x);
    VCLAIM(20, effects == 1 && vf_nreports == 0, "C20.matched_counted_side_effect_at_call_time");
    VCLAIM(20, e->is_saturated() == (VF_CALLS == 1), "C20.counted_at_call_time");
#if VF_CALLS == 2
    co<int> c2 = m.f(x2);
    VCLAIM(20, effects == 2 && e->is_saturated(), "C20.second_call_counted_at_call_time");
    // interleave: first coroutine one step, then the whole second one, then the rest of the first
#if !VF_EAGER
    if (VF_Y > 0) { bool s = c1.step(); VCLAIM(20, s && c1.h.promise().cur == y0, "C20.first_yield_of_first_call"); }
    drain(c2, x2, y0, y1, y2, rv, "second");
    // finish c1 by hand (one yield already consumed)
    for (int k = 1; k < VF_Y; ++k) { bool s = c1.step(); int w = k == 1 ? y1 : y2; VCLAIM(20, s && c1.h.promise().cur == w, "C20.coroutines_of_two_calls_are_independent"); }
    c1.step();
    VCLAIM(20, c1.h.done() && c1.h.promise().yields == VF_Y, "C20.coroutines_of_two_calls_are_independent");
#if VF_END == 0 && (VF_YT < 1)
    { bool t1 = false; int g1 = 0; try { g1 = c1.await_resume(); } catch (int) { t1 = true; }
      VCLAIM(20, !t1 && g1 == rv, "C20.first_call_still_returns_the_clause_value_after_the_second_one_finished"); }
#endif
#else
    drain(c2, x2, y0, y1, y2, rv, "second");
    drain(c1, x, y0, y1, y2, rv, "first");
#endif
#else
    drain(c1, x, y0, y1, y2, rv, "only");
#endif
  }
  catch (int) { threw_at_call = true; }
  catch (vf_reported &) { threw_at_call = true; }
  VCLAIM(20, !threw_at_call, "C20.nothing_is_thrown_at_the_call");
  verif_reach();
}
