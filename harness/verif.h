// Harness interface shared by the symbolic (clang IR -> C -> CBMC) build and the native replay build.
// Every harness defines   extern "C" void harness(void);
// Nondeterministic values come only from verif_nondet_*; in the CBMC build they are solver variables,
// in the native build they are read, in call order, from the replay vector.
#ifndef VERIF_H
#define VERIF_H
extern "C" {
unsigned           verif_nondet_uint(void);
unsigned long      verif_nondet_ulong(void);
unsigned char      verif_nondet_uchar(void);
void               verif_assume(int cond);
// id names the obligation; it is what a VIOLATION / known-finding entry is keyed by
void               verif_assert(int cond, char const *id);
// vacuity witness: must be reachable (the CBMC build turns it into assert(0) and expects FAILURE)
void               verif_reach(void);
// string identity: pointer identity under the opaque string model, strcmp natively
int                verif_str_eq(char const *a, char const *b);
// 1 iff `hay` contains `needle`; under the token model: iff the token log behind `hay` holds a CSTR token
// with exactly the `needle` pointer, or a spliced string built from it
int                verif_msg_has(char const *hay, char const *needle);
// ---- message structure (model: watch summaries of the inserted tokens; native: substring search on the text).
// Strings / numbers must be registered as watched BEFORE the operation that builds the message.
// `msg` is what the library passed to the reporter / tracer (std::string::c_str()).
unsigned           verif_watch_str(char const *s);                 // returns the watch index
unsigned           verif_watch_num(unsigned long v);
unsigned           verif_msg_cnt(char const *msg, unsigned i);     // occurrences of watched string i
unsigned           verif_msg_ncnt(char const *msg, unsigned i);    // occurrences of watched number i (as a whole number)
int                verif_msg_before(char const *msg, unsigned i, unsigned j);   // first i precedes first j, both occur
int                verif_msg_nbefore(char const *msg, unsigned i, unsigned j);  // same for watched numbers
int                verif_msg_sbefore_n(char const *msg, unsigned i, unsigned j);// string i precedes number j
int                verif_msg_starts(char const *msg, char const *lit);
int                verif_str_eq_lit(char const *a, char const *b);   // two plain C strings (e.g. location::file vs __FILE__)
// ---- a std::ostringstream owned by the harness (C18)
void               verif_stream_set(void *oss, unsigned long width, unsigned flags, unsigned char fill);
unsigned long      verif_stream_width(void *oss);
unsigned           verif_stream_flags(void *oss);
unsigned           verif_stream_fill(void *oss);
unsigned           verif_stream_cnt(void *oss, unsigned i);
unsigned           verif_stream_ncnt(void *oss, unsigned i);
unsigned           verif_stream_nl(void *oss);
int                verif_stream_before(void *oss, unsigned i, unsigned j);
#ifdef VERIF_SYMBOLIC
// the stubbed std::regex_search (model only): its last verdict, whether it was consulted, the subject length it was given
unsigned           verif_last_regex_verdict(void);
unsigned           verif_regex_asked(void);
unsigned           verif_regex_len(void);
#endif
unsigned           verif_lock_depth(void);   // model: current depth of the global recursive mutex; native: always 0
#ifdef VERIF_SYMBOLIC
unsigned           verif_stream_ntok(void *oss);
unsigned           verif_stream_nnum(void *oss);
unsigned long      verif_stream_numhash(void *oss);
unsigned           verif_stream_fmtbad(void *oss);
unsigned           verif_stream_hex2(void *oss);
#endif
}
// the model's order-sensitive hash over numeric insertions (verif_stream_numhash): h' = VF_HASH(h, v), h0 = 0
#define VF_HASH(h, v) ((((unsigned long)(h) << 7) | ((unsigned long)(h) >> 57)) ^ (unsigned long)(v) ^ 0x5bd1e995u)
#define VASSERT(c, id) verif_assert((c) ? 1 : 0, id)
// an obligation owned by property C<nn>; a check for one property compiles with -DVF_CLAIM=<nn> so that only its own
// obligations (and the generated memory-safety checks) are in the query; VF_CLAIM=0 keeps all of them
#ifndef VF_CLAIM
#define VF_CLAIM 0
#endif
// The condition is ALWAYS evaluated (harness steps written inside a condition happen whatever the claim); only the
// assertion is conditional.
#define VCLAIM(nn, c, id) do { int vf_cond_ = (c) ? 1 : 0; if (VF_CLAIM == 0 || VF_CLAIM == (nn)) verif_assert(vf_cond_, id); } while (0)
#endif
