// Harness interface shared by the symbolic (clang IR -> C -> CBMC) build and the native replay build.
// Every harness defines   extern "C" void harness(void);
// Nondeterministic values come only from verif_nondet_*; in the CBMC build they are solver variables,
// in the native build they are read, in call order, from the replay vector.
#ifndef VERIF_H
#define VERIF_H
extern "C" {
unsigned           verif_nondet_uint(void);
unsigned long      verif_nondet_ulong(void);
unsigned char      verif_nondet_uchar(void);
void               verif_assume(int cond);
// id names the obligation; it is what a VIOLATION / known-finding entry is keyed by
void               verif_assert(int cond, char const *id);
// vacuity witness: must be reachable (the CBMC build turns it into assert(0) and expects FAILURE)
void               verif_reach(void);
// string identity: pointer identity under the opaque string model, strcmp natively
int                verif_str_eq(char const *a, char const *b);
// 1 iff `hay` contains `needle`; under the token model: iff the token log behind `hay` holds a CSTR token
// with exactly the `needle` pointer, or a spliced string built from it
int                verif_msg_has(char const *hay, char const *needle);
}
#define VASSERT(c, id) verif_assert((c) ? 1 : 0, id)
// an obligation owned by property C<nn>; a check for one property compiles with -DVF_CLAIM=<nn> so that only its own
// obligations (and the generated memory-safety checks) are in the query; VF_CLAIM=0 keeps all of them
#ifndef VF_CLAIM
#define VF_CLAIM 0
#endif
#define VCLAIM(nn, c, id) do { if (VF_CLAIM == 0 || VF_CLAIM == (nn)) verif_assert((c) ? 1 : 0, id); } while (0)
#endif
