// C09 P-capture and mock-function flavours:
//   VF_V 0: plain WITH/SIDE_EFFECT/RETURN copy locals at creation; LR_ forms see the value at call time
//        1: MAKE_CONST_MOCK, called through a const reference; two overloads f(int) / f(long) keep their own expectations
//        2: IMPLEMENT_MOCK2 of an interface called through the base class
#include "vfapi.h"
#ifndef VF_V
#define VF_V 0
#endif
struct I { virtual ~I() = default; virtual int h(int, int &) = 0; };
struct M : trompeloeil::mock_interface<I>
{
#line 100
  MAKE_MOCK1(f, int(int));
#line 110
  MAKE_MOCK1(f, int(long));
#line 120
  MAKE_CONST_MOCK2(c, int(int, int &));
#line 130
  IMPLEMENT_MOCK2(h);
};
extern "C" void harness(void)
{
  M m;
  int old_v = (int)verif_nondet_uint(), new_v = (int)verif_nondet_uint(), x = (int)verif_nondet_uint(), y = (int)verif_nondet_uint();
#if VF_V == 0
  int local = old_v;
  int seen_plain_with = 0, seen_lr_with = 0, seen_plain_se = 0, seen_lr_se = 0;
  int *pl = &seen_plain_with, *ps = &seen_plain_se;
#line 200
  REQUIRE_CALL(m, f(ANY(int)))
    .WITH((*pl = local, true))
    .LR_WITH((seen_lr_with = local, true))
    .SIDE_EFFECT(*ps = local)
    .LR_SIDE_EFFECT(seen_lr_se = local)
    .RETURN(local);
#line 210
  REQUIRE_CALL(m, f(ANY(long)))
    .LR_RETURN(local);
#line 300
  local = new_v;
  int r1 = m.f(x);
  int r2 = m.f((long)x);
  VCLAIM(9, seen_plain_with == old_v && seen_plain_se == old_v && r1 == old_v, "C09.plain_clauses_use_copies_taken_at_creation");
  VCLAIM(9, seen_lr_with == new_v && seen_lr_se == new_v && r2 == new_v, "C09.lr_clauses_see_value_at_call_time");
  VCLAIM(9, vf_nreports == 0, "C09.overloads_keep_their_own_expectations");
#elif VF_V == 1
  int out = y; int *addr = nullptr; int seen = 0;
#line 220
  REQUIRE_CALL(m, c(trompeloeil::_, trompeloeil::_))
    .LR_SIDE_EFFECT(addr = &_2; seen = _1; _2 = new_v)
    .RETURN(_1 + 1);
#line 310
  M const &cm = m;
  int r = cm.c(x, out);
  VCLAIM(9, r == x + 1 && seen == x, "C09.const_mock_positional_arguments");
  VCLAIM(9, addr == &out && out == new_v, "C09.const_mock_reference_parameter_aliases_caller");
#else
  int out = y; int *addr = nullptr; int seen = 0;
#line 230
  REQUIRE_CALL(m, h(trompeloeil::_, trompeloeil::_))
    .LR_SIDE_EFFECT(addr = &_2; seen = _1; _2 = new_v)
    .RETURN(_1 - 1);
#line 320
  I &i = m;
  int r = i.h(x, out);
  VCLAIM(9, r == x - 1 && seen == x, "C09.interface_mock_positional_arguments");
  VCLAIM(9, addr == &out && out == new_v, "C09.interface_mock_reference_parameter_aliases_caller");
#endif
  verif_reach();
}
