// C13 K-null_on_move: every special member of null_on_move<T> for arbitrary pointer values (null, equal, distinct).
// "Copies and moves do not inherit the requirement, and the original keeps its own, also when it is assigned to."
#include "verif.h"
#include <trompeloeil.hpp>
using NM = trompeloeil::null_on_move<int>;
extern "C" void harness(void)
{
  static int obj[2];
  unsigned ca = verif_nondet_uchar() % 3, cb = verif_nondet_uchar() % 3;
  int *pa = ca == 0 ? nullptr : &obj[ca - 1];
  int *pb = cb == 0 ? nullptr : &obj[cb - 1];
  NM a, b;
  VASSERT(!a && a.operator->() == nullptr, "C13.nom_default_is_null");
  a = pa; b = pb;
  VASSERT(a.operator->() == pa && bool(a) == (pa != nullptr) && a.leak() == pa, "C13.nom_holds_pointer");
  { NM c(a); VASSERT(!c, "C13.nom_copy_construct_is_null"); VASSERT(a.operator->() == pa, "C13.nom_copy_source_keeps"); }
  { NM c(std::move(a)); VASSERT(!c, "C13.nom_move_construct_is_null"); VASSERT(a.operator->() == pa, "C13.nom_move_source_keeps"); }
  a = b;
  VASSERT(a.operator->() == pa, "C13.nom_copy_assignment_keeps_target");
  VASSERT(b.operator->() == pb, "C13.nom_copy_assignment_keeps_source");
  a = std::move(b);
  VASSERT(a.operator->() == pa, "C13.nom_move_assignment_keeps_target");
  VASSERT(b.operator->() == pb, "C13.nom_move_assignment_keeps_source");
  a = a;
  VASSERT(a.operator->() == pa, "C13.nom_self_assignment");
  int *&slot = a.leak();
  slot = nullptr;
  VASSERT(!a, "C13.nom_leak_is_the_slot");
  verif_reach();
}
