// C13: a destruction requirement whose lifetime ends because an EXCEPTION leaves its scope (the object is still alive):
// exactly one non-fatal "still alive" report, as for any other way of ending the requirement; the object then dies unwatched.
#include "vfapi.h"
struct T { virtual ~T() {} };
#ifndef VF_FORM
#define VF_FORM 0     /* 0: NAMED_REQUIRE_DESTRUCTION handle destroyed by unwinding, 1: scoped REQUIRE_DESTRUCTION */
#endif
extern "C" void harness(void)
{
  int code = (int)verif_nondet_uint();
  { auto l = trompeloeil::get_lock(); }
  unsigned walive = vf_needle(" is still alive"), wunx = vf_needle("Unexpected destruction of ");
  auto *obj = new trompeloeil::deathwatched<T>;
  bool caught = false; int got = 0;
  try
  {
#if VF_FORM == 0
    auto r = NAMED_REQUIRE_DESTRUCTION(*obj);
#else
    REQUIRE_DESTRUCTION(*obj);
#endif
    throw code;
  }
  catch (int v) { caught = true; got = v; }
  VCLAIM(13, caught && got == code, "C13.setup_exception_caught");
  VCLAIM(13, vf_nreports == 1 && vf_nfatal == 0 && (vf_last.mask & walive),
         "C13.requirement_ended_by_an_exception_leaving_its_scope_reports_still_alive_once");
  delete obj;
  VCLAIM(13, vf_nreports == 2 && vf_nfatal == 0 && (vf_last.mask & wunx), "C13.object_forgotten_by_the_ended_requirement_dies_unwatched");
  verif_reach();
}
