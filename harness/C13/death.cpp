// C13 / C14 K-death: histories over one deathwatched object and up to two destruction requirements, as straight-line shapes.
// VF_O1..VF_O5: op codes (0 = none)
//   1 = create requirement #0     2 = create requirement #1     3 = release #0     4 = release #1
//   5 = destroy the object        6 = copy-construct temps from it, once through a non-const and once through a const reference (each dies at once)
//   7 = move-construct a temp from it    8 = assign a temp TO it    9 = assign it to a temp
// Reference: 4-state model of the C13 statement.  Pointer checks on (C14: nothing touches freed memory).
#include "vfapi.h"
#ifndef VF_O1
#define VF_O1 1
#endif
#ifndef VF_O2
#define VF_O2 5
#endif
#ifndef VF_O3
#define VF_O3 0
#endif
#ifndef VF_O4
#define VF_O4 0
#endif
#ifndef VF_O5
#define VF_O5 0
#endif
struct T
{
  T() = default;
  T(int v_) : v(v_) {}
  virtual ~T() {}
  int v = 0;
};
using DW = trompeloeil::deathwatched<T>;

static DW *obj;
static std::unique_ptr<trompeloeil::expectation> req[2];
static bool alive = true, rexists[2], rsat[2], multi = false;
static unsigned want_reports = 0;

static void check_flags()
{
  for (int k = 0; k < 2; ++k)
    if (rexists[k])
    {
      if (multi) { VCLAIM(13, req[k]->is_satisfied() == rsat[k] && req[k]->is_saturated() == rsat[k], "C13.multi.requirement_satisfied_iff_object_died"); }
      else       { VCLAIM(13, req[k]->is_satisfied() == rsat[k] && req[k]->is_saturated() == rsat[k], "C13.requirement_satisfied_iff_object_died"); }
    }
}
static void check_reports(char const *)
{
  if (multi) { VCLAIM(13, vf_nreports == want_reports, "C13.multi.report_count"); }
  else       { VCLAIM(13, vf_nreports == want_reports, "C13.report_count"); }
  VCLAIM(15, vf_nfatal == 0, "C15.lifetime_reports_nonfatal");
}

static void op(int o)
{
  switch (o)
  {
  case 0: return;
  case 1: case 2:
  {
    int k = o - 1;
    if (!alive || rexists[k]) return;                 // not a legal history: skip
    if (rexists[1 - k]) multi = true;
    if (k == 0) req[0] = NAMED_REQUIRE_DESTRUCTION(*obj); else req[1] = NAMED_REQUIRE_DESTRUCTION(*obj);
    rexists[k] = true; rsat[k] = false;
    break;
  }
  case 3: case 4:
  {
    int k = o - 3;
    if (!rexists[k]) return;
    if (!rsat[k]) ++want_reports;                       // 'still alive'
    req[k].reset();
    rexists[k] = false;
    break;
  }
  case 5:
    if (!alive) return;
    if (!rexists[0] && !rexists[1]) ++want_reports;     // 'unexpected destruction'
    for (int k = 0; k < 2; ++k) if (rexists[k]) rsat[k] = true;
    delete obj; obj = nullptr; alive = false;
    break;
  case 6:
    if (!alive) return;
    { DW tmp(*obj); VCLAIM(13, tmp.v == obj->v, "C13.copy_copies_value"); }                     // non-const lvalue: forwarding constructor
    ++want_reports;                                     // the copy has no requirement of its own
    { DW tmp(static_cast<DW const &>(*obj)); VCLAIM(13, tmp.v == obj->v, "C13.const_copy_copies_value"); }   // const&: the copy constructor proper
    ++want_reports;
    break;
  case 7:
    if (!alive) return;
    { DW tmp(std::move(*obj)); (void)tmp; }
    ++want_reports;
    break;
  case 8:
    if (!alive) return;
    { DW tmp(7); *obj = tmp; VCLAIM(13, obj->v == 7, "C13.assign_copies_value"); }
    ++want_reports;                                     // tmp dies unrequired; the original keeps its requirement
    break;
  case 9:
    if (!alive) return;
    { DW tmp(7); tmp = *obj; }
    ++want_reports;
    break;
  }
  check_reports("op");
  check_flags();
}

extern "C" void harness(void)
{
  obj = new DW(3);
  op(VF_O1); op(VF_O2); op(VF_O3); op(VF_O4); op(VF_O5);
  // wind down: whatever is left goes in a fixed order, still checked
  op(3); op(4); op(5);
  VCLAIM(13, vf_nreports == want_reports, "C13.final_report_count");
  verif_reach();
}
