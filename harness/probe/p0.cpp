#include "verif.h"
#include <trompeloeil.hpp>
struct vf_reported {};
static unsigned nrep, nfatal, nok;
namespace trompeloeil {
template <> struct reporter<specialized> {
  static void send(severity s, char const *file, unsigned long line, char const *msg)
  { ++nrep; if (s == severity::fatal) { ++nfatal; throw vf_reported{}; } }
  static void sendOk(char const *msg) { ++nok; }
};
}
struct M
{
#line 100
  MAKE_MOCK1(f, void(int));
};
extern "C" void harness(void)
{
  M m;
  int x = (int)verif_nondet_uint();
  REQUIRE_CALL(m, f(trompeloeil::_));
  m.f(x);
  verif_reach();
}
