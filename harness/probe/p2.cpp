#include "verif.h"
#include <trompeloeil.hpp>
struct vf_reported {};
static unsigned nrep, nfatal, nok;
namespace trompeloeil {
template <> struct reporter<specialized> {
  static void send(severity s, char const *file, unsigned long line, char const *msg)
  { ++nrep; if (s == severity::fatal) { ++nfatal; throw vf_reported{}; } }
  static void sendOk(char const *msg) { ++nok; }
};
}
struct M
{
  MAKE_MOCK1(f, int(int));
};
extern "C" void harness(void)
{
  int x = (int)verif_nondet_uint();
  int r;
  {
  M m;
  REQUIRE_CALL(m, f(trompeloeil::_)).RETURN(_1 + 1);
  r = m.f(x);
  }
  VASSERT(r == x + 1, "p.ret");
  verif_reach();
}
