#include "vfapi.h"
struct M
{
#line 100
  MAKE_MOCK1(f, void(int));
};
extern "C" void harness(void)
{
  M m;
  int x = (int)verif_nondet_uint();
#if VF_P == 1
  REQUIRE_CALL(m, f(trompeloeil::_));
  m.f(x);
#elif VF_P == 2
  unsigned effects = 0;
  REQUIRE_CALL(m, f(trompeloeil::_)).LR_SIDE_EFFECT(++effects);
  m.f(x);
  VASSERT(effects == 1, "p.effects");
#elif VF_P == 3
  auto e = NAMED_REQUIRE_CALL(m, f(trompeloeil::_));
  m.f(x);
  VASSERT(e->is_satisfied(), "p.sat");
#elif VF_P == 4
  auto e = NAMED_REQUIRE_CALL(m, f(trompeloeil::_));
  bool threw = false;
  try { m.f(x); } catch (vf_reported &) { threw = true; }
  VASSERT(!threw, "p.threw");
#endif
  verif_reach();
}
