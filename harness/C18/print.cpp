// C18 kernels: trompeloeil::print() on a stream with ARBITRARY prior formatting state.
// VF_T selects the value family; values / bytes / prior (width, flags, fill) are symbolic.
// Model obligations talk about inserted tokens and the stream-state triple; the native build additionally
// compares the exact text (VERIF_NATIVE), which validates the token model against libstdc++.
#include "verif.h"
#include <trompeloeil.hpp>
#include <sstream>
#include <memory>
#include <array>
#include <cstdio>
#include <cstring>
#ifndef VF_T
#define VF_T 0
#endif
#ifndef VF_SIZE
#define VF_SIZE 5
#endif
extern "C" char const *verif_stream_text(void *os);
struct opaque { unsigned char b[VF_SIZE]; };
struct custom { int v; };
namespace trompeloeil {
template <> struct printer<custom> { static void print(std::ostream &os, custom const &c) { os << "custom<" << c.v << ">"; } };
}
namespace trompeloeil {   // a user printer for a POINTER type: a null pointer still prints nullptr and never reaches it
template <> struct printer<custom const *> { static void print(std::ostream &os, custom const *const &c) { os << "custom-ptr<" << (c ? c->v : -1) << ">"; } };
}
struct both { int v; };   // has operator<< AND a printer<> : the printer must win
static std::ostream &operator<<(std::ostream &os, both const &) { return os << "WRONG-operator<<"; }
namespace trompeloeil {
template <> struct printer<both> { static void print(std::ostream &os, both const &b) { os << "printer-both " << b.v; } };
}
struct nullcmp {       // comparable with nullptr AND streamable: prints nullptr when equal, operator<< otherwise (never both)
  void *p;
  friend bool operator==(std::nullptr_t, nullcmp n) { return !n.p; }
  friend bool operator==(nullcmp n, std::nullptr_t) { return !n.p; }
  friend std::ostream &operator<<(std::ostream &os, nullcmp const &) { return os << "nullcmp-streamed"; }
};
struct pseudonull {    // operator== with nullptr exists but does not yield a bool: not null-comparable, always streamed
  friend void operator==(std::nullptr_t, pseudonull) {}
  friend void operator==(pseudonull, std::nullptr_t) {}
  friend std::ostream &operator<<(std::ostream &os, pseudonull const &) { return os << "pseudonull-streamed"; }
};
static char const *const NULLPTR = "nullptr";

extern "C" void harness(void)
{
  std::ostringstream os;
  unsigned long w0 = verif_nondet_ulong(); unsigned f0 = verif_nondet_uint(); unsigned char c0 = verif_nondet_uchar();
  verif_assume(w0 <= 64);                       // a width the stream can carry; any flags, any fill
  verif_assume(c0 != 0);
  f0 &= 0x7fff;                                  // the defined fmtflags bits
  unsigned wnull = verif_watch_str("nullptr");
  unsigned wopen = verif_watch_str("{ "), wsep = verif_watch_str(", "), wclose = verif_watch_str(" }");
  verif_stream_set(&os, w0, f0, c0);
  int x = (int)verif_nondet_uint(), y = (int)verif_nondet_uint(), z = (int)verif_nondet_uint();
  bool check_restore = true;
#ifdef VERIF_NATIVE
  char want[512]; want[0] = 0;
#endif

#if VF_T == 0          /* int: directly streamable leaf */
  trompeloeil::print(os, x);
#ifdef VERIF_SYMBOLIC
  VASSERT(verif_stream_nnum(&os) == 1 && verif_stream_ntok(&os) == 1, "C18.int_one_numeric_token");
  VASSERT(verif_stream_numhash(&os) == VF_HASH(0, (long)x), "C18.int_value");
  VASSERT(verif_stream_fmtbad(&os) == 0, "C18.leaf_rendered_decimal_unpadded");
#else
  std::snprintf(want, sizeof want, "%d", x);
#endif
#elif VF_T == 1        /* opaque struct: hex dump of sizeof(T) bytes */
  opaque o;
  unsigned long h = VF_HASH(0, VF_SIZE);
  for (int i = 0; i < VF_SIZE; ++i) { o.b[i] = verif_nondet_uchar(); h = VF_HASH(h, o.b[i]); }
  unsigned whx = verif_watch_str(" 0x"), wobj = verif_watch_str("-byte object={");
  trompeloeil::print(os, o);
  VASSERT(verif_stream_cnt(&os, whx) == VF_SIZE, "C18.hexdump_one_0x_per_byte");
  VASSERT(verif_stream_cnt(&os, wobj) == 1 && verif_stream_cnt(&os, wclose) == 1, "C18.hexdump_frame");
  VASSERT(verif_stream_nl(&os) == (VF_SIZE > 8 ? 1u : 0u) + VF_SIZE / 16, "C18.hexdump_line_breaks");
#ifdef VERIF_SYMBOLIC
  VASSERT(verif_stream_nnum(&os) == VF_SIZE + 1, "C18.hexdump_exactly_sizeof_bytes");
  VASSERT(verif_stream_numhash(&os) == h, "C18.hexdump_byte_exact_in_order");
  VASSERT(verif_stream_hex2(&os) == VF_SIZE, "C18.hexdump_bytes_hex_width2_zero_filled");
  VASSERT(verif_stream_fmtbad(&os) == VF_SIZE, "C18.hexdump_size_rendered_decimal");
#else
  { int n = std::snprintf(want, sizeof want, "%d-byte object={%s", VF_SIZE, VF_SIZE > 8 ? "\n" : "");
    for (int i = 0; i < VF_SIZE; ++i) n += std::snprintf(want + n, sizeof want - n, " 0x%02x%s", o.b[i], (i & 0xf) == 0xf ? "\n" : "");
    std::snprintf(want + n, sizeof want - n, " }"); }
#endif
#elif VF_T == 2        /* char const*: null prints nullptr and is not dereferenced */
  static char const text[] = "abc";
  unsigned wtext = verif_watch_str(text);
  char const *p = (verif_nondet_uchar() & 1) ? text : nullptr;
  trompeloeil::print(os, p);
  VASSERT(verif_stream_cnt(&os, wnull) == (p ? 0u : 1u), "C18.null_char_pointer_prints_nullptr");
  VASSERT(verif_stream_cnt(&os, wtext) == (p ? 1u : 0u), "C18.char_pointer_streamed");
#ifdef VERIF_NATIVE
  std::snprintf(want, sizeof want, "%s", p ? p : "nullptr");
#endif
#elif VF_T == 3        /* int*, unique_ptr<int>, shared_ptr<int>, nullptr_t: null-safe */
  bool isnull = (verif_nondet_uchar() & 1) != 0;
  int *p = isnull ? nullptr : &x;
  trompeloeil::print(os, p);
  VASSERT(verif_stream_cnt(&os, wnull) == (isnull ? 1u : 0u), "C18.null_int_pointer_prints_nullptr");
  { std::ostringstream o2; verif_stream_set(&o2, w0, f0, c0);
    std::unique_ptr<int> u(isnull ? nullptr : new int(x));
    trompeloeil::print(o2, u);
    VASSERT(verif_stream_cnt(&o2, wnull) == (isnull ? 1u : 0u), "C18.null_unique_ptr_prints_nullptr"); }
  { std::ostringstream o3; verif_stream_set(&o3, w0, f0, c0);
    trompeloeil::print(o3, nullptr);
    VASSERT(verif_stream_cnt(&o3, wnull) == 1, "C18.nullptr_t_prints_nullptr"); }
  check_restore = isnull ? true : true;
#elif VF_T == 4        /* pair / tuple / nested pair: element-wise { a, b } */
  { std::pair<int, int> pr{x, y};
    trompeloeil::print(os, pr);
    VASSERT(verif_stream_cnt(&os, wopen) == 1 && verif_stream_cnt(&os, wsep) == 1 && verif_stream_cnt(&os, wclose) == 1, "C18.pair_structure");
    VASSERT(verif_stream_before(&os, wopen, wsep) && verif_stream_before(&os, wsep, wclose), "C18.pair_order");
#ifdef VERIF_SYMBOLIC
    VASSERT(verif_stream_nnum(&os) == 2 && verif_stream_numhash(&os) == VF_HASH(VF_HASH(0, (long)x), (long)y), "C18.pair_elements_in_order");
    VASSERT(verif_stream_fmtbad(&os) == 0, "C18.pair_leaves_decimal_unpadded");
#else
    std::snprintf(want, sizeof want, "{ %d, %d }", x, y);
#endif
  }
  { std::ostringstream o2; verif_stream_set(&o2, w0, f0, c0);
    std::tuple<int, int, int> t{x, y, z};
    trompeloeil::print(o2, t);
    VASSERT(verif_stream_cnt(&o2, wopen) == 1 && verif_stream_cnt(&o2, wsep) == 2 && verif_stream_cnt(&o2, wclose) == 1, "C18.tuple_structure");
#ifdef VERIF_SYMBOLIC
    VASSERT(verif_stream_nnum(&o2) == 3 && verif_stream_numhash(&o2) == VF_HASH(VF_HASH(VF_HASH(0, (long)x), (long)y), (long)z), "C18.tuple_elements_in_order");
    VASSERT(verif_stream_fmtbad(&o2) == 0, "C18.tuple_leaves_decimal_unpadded");
#else
    // (a prior width pads the first structural token: exact text is claimed for leaves, so compare only at width 0)
    if (w0 == 0) { char w2[128]; std::snprintf(w2, sizeof w2, "{ %d, %d, %d }", x, y, z); VASSERT(std::strcmp(verif_stream_text(&o2), w2) == 0, "C18.native_text_tuple"); }
#endif
  }
  { std::ostringstream o3; verif_stream_set(&o3, w0, f0, c0);
    char const *np = nullptr;
    std::pair<int, std::pair<char const *, int>> n{x, {np, y}};
    trompeloeil::print(o3, n);
    VASSERT(verif_stream_cnt(&o3, wopen) == 2 && verif_stream_cnt(&o3, wsep) == 2 && verif_stream_cnt(&o3, wclose) == 2, "C18.nested_pair_structure");
    VASSERT(verif_stream_cnt(&o3, wnull) == 1, "C18.null_at_depth_prints_nullptr");
  }
#elif VF_T == 5        /* collections: std::array and C array */
  { std::array<int, 3> a{{x, y, z}};
    trompeloeil::print(os, a);
    VASSERT(verif_stream_cnt(&os, wopen) == 1 && verif_stream_cnt(&os, wsep) == 2 && verif_stream_cnt(&os, wclose) == 1, "C18.array_structure");
#ifdef VERIF_SYMBOLIC
    VASSERT(verif_stream_nnum(&os) == 3 && verif_stream_numhash(&os) == VF_HASH(VF_HASH(VF_HASH(0, (long)x), (long)y), (long)z), "C18.array_elements_in_order");
    VASSERT(verif_stream_fmtbad(&os) == 0, "C18.array_leaves_decimal_unpadded");
#else
    std::snprintf(want, sizeof want, "{ %d, %d, %d }", x, y, z);
#endif
  }
  { std::ostringstream o2; verif_stream_set(&o2, w0, f0, c0);
    int ca[2] = {x, y};
    trompeloeil::print(o2, ca);
    VASSERT(verif_stream_cnt(&o2, wopen) == 1 && verif_stream_cnt(&o2, wsep) == 1 && verif_stream_cnt(&o2, wclose) == 1, "C18.c_array_structure");
  }
  { std::ostringstream o3; verif_stream_set(&o3, w0, f0, c0);
    std::array<int, 0> e{};
    trompeloeil::print(o3, e);
    VASSERT(verif_stream_cnt(&o3, wopen) == 1 && verif_stream_cnt(&o3, wsep) == 0 && verif_stream_cnt(&o3, wclose) == 1, "C18.empty_collection");
  }
  check_restore = false;   // collections print through the stream directly; restoration is claimed for leaves (T0,T1)
#elif VF_T == 7        /* collections whose ELEMENTS are built-in arrays: still element-wise, never a pointer or a C string */
  { int g[2][2] = {{x, y}, {z, x}};
    trompeloeil::print(os, g);
    VASSERT(verif_stream_cnt(&os, wopen) == 3 && verif_stream_cnt(&os, wsep) == 3 && verif_stream_cnt(&os, wclose) == 3, "C18.array_of_arrays_structure");
#ifdef VERIF_SYMBOLIC
    VASSERT(verif_stream_nnum(&os) == 4 && verif_stream_numhash(&os) == VF_HASH(VF_HASH(VF_HASH(VF_HASH(0, (long)x), (long)y), (long)z), (long)x), "C18.array_of_arrays_elements_in_order");
    VASSERT(verif_stream_fmtbad(&os) == 0, "C18.array_of_arrays_leaves_decimal_unpadded");
#else
    std::snprintf(want, sizeof want, "{ { %d, %d }, { %d, %d } }", x, y, z, x);
#endif
  }
  { std::ostringstream o2; verif_stream_set(&o2, w0, f0, c0);
    std::array<int[2], 2> a{{{x, y}, {y, z}}};
    trompeloeil::print(o2, a);
    VASSERT(verif_stream_cnt(&o2, wopen) == 3 && verif_stream_cnt(&o2, wsep) == 3 && verif_stream_cnt(&o2, wclose) == 3, "C18.std_array_of_c_arrays_structure");
#ifdef VERIF_SYMBOLIC
    VASSERT(verif_stream_nnum(&o2) == 4, "C18.std_array_of_c_arrays_elements");
#endif
  }
  { std::ostringstream o3; verif_stream_set(&o3, w0, f0, c0);
    int g3[2][1][2] = {{{x, y}}, {{z, z}}};
    trompeloeil::print(o3, g3);
    VASSERT(verif_stream_cnt(&o3, wopen) == 5 && verif_stream_cnt(&o3, wsep) == 3 && verif_stream_cnt(&o3, wclose) == 5, "C18.three_level_array_structure");
  }
  check_restore = false;
#elif VF_T == 8        /* null-comparable user objects: nullptr iff equal to nullptr, else their operator<<; also nested */
  bool isnull = (verif_nondet_uchar() & 1) != 0;
  unsigned wnc = verif_watch_str("nullcmp-streamed"), wpn = verif_watch_str("pseudonull-streamed");
  { nullcmp n{isnull ? nullptr : (void *)&x};
    trompeloeil::print(os, n);
    VASSERT(verif_stream_cnt(&os, wnull) == (isnull ? 1u : 0u), "C18.null_comparable_object_prints_nullptr_iff_null");
    VASSERT(verif_stream_cnt(&os, wnc) == (isnull ? 0u : 1u), "C18.null_comparable_object_streamed_iff_not_null");
#ifdef VERIF_NATIVE
    std::snprintf(want, sizeof want, "%s", isnull ? "nullptr" : "nullcmp-streamed");
#endif
  }
  { std::ostringstream o2; verif_stream_set(&o2, w0, f0, c0);
    trompeloeil::print(o2, pseudonull{});
    VASSERT(verif_stream_cnt(&o2, wnull) == 0 && verif_stream_cnt(&o2, wpn) == 1, "C18.non_bool_null_comparison_is_streamed");
  }
  { std::ostringstream o3; verif_stream_set(&o3, w0, f0, c0);
    std::pair<nullcmp, int> pr{nullcmp{isnull ? nullptr : (void *)&y}, z};
    trompeloeil::print(o3, pr);
    VASSERT(verif_stream_cnt(&o3, wopen) == 1 && verif_stream_cnt(&o3, wsep) == 1 && verif_stream_cnt(&o3, wclose) == 1, "C18.pair_with_null_comparable_structure");
    VASSERT(verif_stream_cnt(&o3, wnull) == (isnull ? 1u : 0u) && verif_stream_cnt(&o3, wnc) == (isnull ? 0u : 1u), "C18.null_comparable_at_depth");
  }
  check_restore = false;
#elif VF_T == 9        /* pointers to data members: null prints nullptr (nothing is dereferenced or dumped) */
  bool isnull = (verif_nondet_uchar() & 1) != 0;
  struct S { int k; int m; };
  unsigned wobj = verif_watch_str("-byte object={");
  { int S::*pm = isnull ? nullptr : &S::m;
    trompeloeil::print(os, pm);
    VASSERT(verif_stream_cnt(&os, wnull) == (isnull ? 1u : 0u), "C18.null_member_pointer_prints_nullptr");
    // (a non-null one is streamable through its conversion to bool: how it then reads is not claimed)
    if (isnull) VASSERT(verif_stream_cnt(&os, wobj) == 0, "C18.null_member_pointer_prints_only_nullptr");
  }
  check_restore = false;
#elif VF_T == 6        /* printer<T> customisation point, also when operator<< exists */
  { custom cu{x};
    unsigned wc = verif_watch_str("custom<");
    trompeloeil::print(os, cu);
    VASSERT(verif_stream_cnt(&os, wc) == 1, "C18.user_printer_used");
    // user printer code runs with whatever state the stream carries: no exact-text claim
  }
  { std::ostringstream o5; verif_stream_set(&o5, w0, f0, c0);
    bool isnull = (verif_nondet_uchar() & 1) != 0;
    custom target{z};
    custom const *cp = isnull ? nullptr : &target;
    unsigned wcp = verif_watch_str("custom-ptr<");
    trompeloeil::print(o5, cp);
    VASSERT(verif_stream_cnt(&o5, wnull) == (isnull ? 1u : 0u), "C18.null_pointer_with_user_printer_prints_nullptr");
    VASSERT(verif_stream_cnt(&o5, wcp) == (isnull ? 0u : 1u), "C18.user_pointer_printer_used_iff_not_null");
  }
  { std::ostringstream o2;
    unsigned wp = verif_watch_str("printer-both "), wwrong = verif_watch_str("WRONG-operator<<");
    both b{y};
    trompeloeil::print(o2, b);
    VASSERT(verif_stream_cnt(&o2, wp) == 1 && verif_stream_cnt(&o2, wwrong) == 0, "C18.printer_preferred_over_operator");
  }
  check_restore = false;
#endif

  if (check_restore && (VF_T == 0 || VF_T == 1))
  {
    VASSERT(verif_stream_width(&os) == w0, "C18.width_restored");
    VASSERT(verif_stream_flags(&os) == f0, "C18.flags_restored");
    VASSERT(verif_stream_fill(&os) == c0, "C18.fill_restored");
  }
#ifdef VERIF_NATIVE
  if (want[0] && (VF_T <= 2 || w0 == 0)) VASSERT(std::strcmp(verif_stream_text(&os), want) == 0, "C18.native_text");
#endif
  verif_reach();
}
