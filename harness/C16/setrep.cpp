// C16 (second sentence): set_reporter returns the previously installed reporter(s); from then on violation and OK reports
// go to the newly installed ones only.  Uses the run-time reporter (no compile-time specialisation in this harness).
#include "verif.h"
#include <trompeloeil.hpp>
struct rep_exc {};
struct M
{
#line 100
  MAKE_MOCK1(f, int(int));
};
static unsigned a_viol, a_ok, b_viol, b_ok;
extern "C" void harness(void)
{
  int x = (int)verif_nondet_uint(), rv = (int)verif_nondet_uint();
  trompeloeil::set_reporter(
    [](trompeloeil::severity s, char const *, unsigned long, std::string const &) { ++a_viol; if (s == trompeloeil::severity::fatal) throw rep_exc{}; },
    [](char const *) { ++a_ok; });
  M m;
  {
    ALLOW_CALL(m, f(ANY(int))).RETURN(rv);
    VCLAIM(16, m.f(x) == rv && a_ok == 1 && a_viol == 0, "C16.installed_ok_reporter_receives_ok_reports");
  }
  bool t = false; try { m.f(x); } catch (rep_exc &) { t = true; }
  VCLAIM(16, t && a_viol == 1 && a_ok == 1, "C16.installed_reporter_receives_violations");
  auto prev = trompeloeil::set_reporter(
    [](trompeloeil::severity s, char const *, unsigned long, std::string const &) { ++b_viol; if (s == trompeloeil::severity::fatal) throw rep_exc{}; },
    [](char const *) { ++b_ok; });
  {
    ALLOW_CALL(m, f(ANY(int))).RETURN(rv);
    VCLAIM(16, m.f(x) == rv && b_ok == 1 && a_ok == 1, "C16.ok_reports_go_to_the_new_reporter_only");
  }
  t = false; try { m.f(x); } catch (rep_exc &) { t = true; }
  VCLAIM(16, t && b_viol == 1 && a_viol == 1, "C16.violations_go_to_the_new_reporter_only");
  // the returned pair is the previously installed one
  prev.second("x");
  VCLAIM(16, a_ok == 2 && b_ok == 1, "C16.set_reporter_returns_previous_ok_reporter");
  bool t2 = false; try { prev.first(trompeloeil::severity::fatal, "f", 1, std::string("m")); } catch (rep_exc &) { t2 = true; }
  VCLAIM(16, t2 && a_viol == 2 && b_viol == 1, "C16.set_reporter_returns_previous_reporter");
  // single-argument overload: replaces the violation reporter only
  auto prev2 = trompeloeil::set_reporter(prev.first);
  t = false; try { m.f(x); } catch (rep_exc &) { t = true; }
  VCLAIM(16, t && a_viol == 3 && b_viol == 1, "C16.single_argument_set_reporter_replaces_violation_reporter");
  { ALLOW_CALL(m, f(ANY(int))).RETURN(rv); m.f(x); }
  VCLAIM(16, b_ok == 2 && a_ok == 2, "C16.single_argument_set_reporter_keeps_ok_reporter");
  (void)prev2;
  verif_reach();
}
