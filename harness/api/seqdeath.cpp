// C05 K-notify: a sequenced REQUIRE_DESTRUCTION.  s1 holds [E0 = f(0), D = destruction of obj, E2 = f(2)];
// with VF_K == 2 the monitor is also in s2 = [E1 = f(1), D].  Counters of E0 / E1 are arbitrary.  The object is destroyed.
// Expected: eligible iff every pending predecessor in every named sequence is satisfied; eligible => no report;
// ineligible => one NON-FATAL report per violated sequence; in both cases the destruction counts (requirement satisfied
// and saturated) and the predecessors are retired.
#include "vfapi.h"
#ifndef VF_K
#define VF_K 1
#endif
struct T { virtual ~T() {} };
struct M
{
#line 100
  MAKE_MOCK1(f, int(int));
};
using CM = vf_cm_t<int(int), int>;
extern "C" void harness(void)
{
  trompeloeil::sequence s1, s2;
  M m;
  size_t L0 = verif_nondet_ulong(), H0 = verif_nondet_ulong(), c0 = verif_nondet_ulong();
  size_t L1 = verif_nondet_ulong(), H1 = verif_nondet_ulong(), c1 = verif_nondet_ulong();
  verif_assume(L0 <= H0 && H0 > 0 && c0 < H0 && L1 <= H1 && H1 > 0 && c1 < H1);
  auto *obj = new trompeloeil::deathwatched<T>;
#line 200
  auto e0 = NAMED_REQUIRE_CALL(m, f(0)).IN_SEQUENCE(s1).RETURN(1);
#line 210
  auto e1 = NAMED_REQUIRE_CALL(m, f(1)).IN_SEQUENCE(s2).RETURN(1);
#if VF_K == 2
#line 220
  auto d = NAMED_REQUIRE_DESTRUCTION(*obj).IN_SEQUENCE(s1, s2);
#else
#line 230
  auto d = NAMED_REQUIRE_DESTRUCTION(*obj).IN_SEQUENCE(s1);
#endif
#line 240
  auto e2 = NAMED_REQUIRE_CALL(m, f(2)).IN_SEQUENCE(s1).RETURN(1);
#line 300
  vf_poke(*e0->sequences, L0, H0, c0);
  vf_poke(*e1->sequences, L1, H1, c1);
  bool viol1 = c0 < L0;
  bool viol2 = VF_K == 2 && c1 < L1;
  unsigned want = (viol1 ? 1u : 0u) + (viol2 ? 1u : 0u);
  VCLAIM(5, !d->is_satisfied() && !d->is_saturated(), "C05.monitor_pending_before_destruction");
  delete obj;
  if (want == 0) VCLAIM(5, vf_nreports == 0, "C05.eligible_destruction_not_reported");
  else VCLAIM(5, vf_nreports == want, "C05.ineligible_destruction_reported_once_per_violated_sequence");
  VCLAIM(5, vf_nfatal == 0, "C05.destruction_reports_nonfatal");
  VCLAIM(15, vf_nfatal == 0, "C15.destruction_out_of_sequence_is_nonfatal");
  VCLAIM(5, d->is_satisfied() && d->is_saturated(), "C05.destruction_counts_as_having_happened");
  VCLAIM(13, d->is_satisfied() && d->is_saturated(), "C13.sequenced_requirement_satisfied_by_destruction");
  // forward only: the monitor's predecessors are gone from the sequences it names
  VCLAIM(5, !e0->sequences->can_be_called(), "C05.predecessor_cannot_match_after_destruction");
  if (VF_K == 2) VCLAIM(5, !e1->sequences->can_be_called(), "C05.predecessor_in_second_sequence_cannot_match_after_destruction");
  // the successor is next in line now
  VCLAIM(5, e2->sequences->can_be_called(), "C05.successor_eligible_after_destruction");
  // C06: the destruction counts in the sequence too, in order or not: with the successor made optional nothing pending is unsatisfied
  {
    size_t l2 = e2->sequences->get_min_calls(), h2 = e2->sequences->max_calls, c2 = e2->sequences->get_calls();
    vf_poke(*e2->sequences, 0, h2, c2);
    VCLAIM(6, s1.is_completed(), "C06.sequence_completed_once_the_destruction_happened_and_the_rest_is_satisfied");
    if (VF_K == 2) VCLAIM(6, s2.is_completed(), "C06.second_sequence_completed_once_the_destruction_happened");
    vf_poke(*e2->sequences, l2, h2, c2);
    VCLAIM(6, !s1.is_completed(), "C06.pending_required_successor_keeps_the_sequence_incomplete");
  }
  unsigned before = vf_nreports;
  d.reset();
  VCLAIM(13, vf_nreports == before, "C13.released_after_death_silent");
  vf_poke(*e0->sequences, 0, 1, 0); vf_poke(*e1->sequences, 0, 1, 0); vf_poke(*e2->sequences, 0, 1, 0);
  verif_reach();
}
