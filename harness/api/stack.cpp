// API kernel "stack": VF_N (1..3) real expectations stacked on one mock function int f(int), arbitrary
// counter state each, one real call with an arbitrary argument.  Serves C01, C02, C03, C07, C08, C16.
//   E_i = NAMED_REQUIRE_CALL(m, f(ge(lo_i))).WITH(_1 <= hi_i).SIDE_EFFECT(log i).RETURN(100+i)
//   E_0 is the oldest.  VF_SAT = bitmask of expectations that are pre-saturated (sit in the saturated list).
// Pre-state invariant (what real histories produce):  L<=H, active: count<H or H==0, saturated: count==H>0.
#include "vfapi.h"
#ifndef VF_N
#define VF_N 2
#endif
#ifndef VF_SAT
#define VF_SAT 0
#endif
struct M
{
#line 100
  MAKE_MOCK1(f, int(int));
};
static unsigned vf_logv, vf_nlog;           // side-effect log as base-8 digits (id+1), no symbolic array index
static void logit(unsigned i) { vf_logv = vf_logv * 8 + (i + 1); ++vf_nlog; }

using CM = vf_cm_t<int(int), decltype(trompeloeil::ge(0))>;

extern "C" void harness(void)
{
  M m;
  int lo[3], hi[3];
  size_t L[3], H[3], c[3];
  CM *cm[3] = {nullptr, nullptr, nullptr};
  for (int i = 0; i < VF_N; ++i)
  {
    lo[i] = (int)verif_nondet_uint(); hi[i] = (int)verif_nondet_uint();
    L[i] = verif_nondet_ulong(); H[i] = verif_nondet_ulong(); c[i] = verif_nondet_ulong();
    if (VF_SAT & (1 << i)) verif_assume(L[i] <= H[i] && c[i] == H[i] && H[i] > 0);
    else verif_assume(L[i] <= H[i] && c[i] <= H[i] && (c[i] != H[i] || H[i] == 0));
  }
  int x = (int)verif_nondet_uint();
  int lo0 = lo[0], hi0 = hi[0], lo1 = lo[1], hi1 = hi[1], lo2 = lo[2], hi2 = hi[2];
#line 200
  auto e0 = NAMED_REQUIRE_CALL(m, f(trompeloeil::ge(lo0))).WITH(_1 <= hi0).SIDE_EFFECT(logit(0)).RETURN(100);
  cm[0] = e0.get();
#if VF_N > 1
#line 210
  auto e1 = NAMED_REQUIRE_CALL(m, f(trompeloeil::ge(lo1))).WITH(_1 <= hi1).SIDE_EFFECT(logit(1)).RETURN(101);
  cm[1] = e1.get();
#endif
#if VF_N > 2
#line 220
  auto e2 = NAMED_REQUIRE_CALL(m, f(trompeloeil::ge(lo2))).WITH(_1 <= hi2).SIDE_EFFECT(logit(2)).RETURN(102);
  cm[2] = e2.get();
#endif
#line 300
  unsigned nx = vf_num((unsigned long)(long)x);   // the actual argument, as a watched number in report texts
  auto &active = m.trompeloeil_l_expectations_100.active;
  auto &saturated = m.trompeloeil_l_expectations_100.saturated;
  for (int i = 0; i < VF_N; ++i)
  {
    vf_ok_names[vf_nok_names++] = cm[i]->name;
    vf_poke(*cm[i]->sequences, L[i], H[i], c[i]);
    if (VF_SAT & (1 << i)) { cm[i]->unlink(); saturated.push_back(cm[i]); }
  }
  // ---- reference model
  int handler = -1;                       // newest active expectation that accepts x
  for (int i = VF_N - 1; i >= 0; --i)
    if (!(VF_SAT & (1 << i)) && lo[i] <= x && x <= hi[i]) { handler = i; break; }
  bool accept = handler >= 0 && H[handler] != 0;
#ifdef VF_CASE
  // case split of the value space by designated candidate (the cases -1..VF_N-1 are exhaustive: handler is one of them)
  verif_assume(handler == VF_CASE - 1);
#endif

  bool threw = false; int r = -1;
  try { r = m.f(x); } catch (vf_reported &) { threw = true; }

  // C01: accepted iff designated candidate exists and is not forbidding; otherwise exactly one fatal report
  VCLAIM(1, threw == !accept, "C01.accept_iff_candidate");
  if (!accept)
  {
    VCLAIM(1, vf_nreports == 1 && vf_first.fatal, "C01.reject_exactly_one_fatal");
    VCLAIM(15, (vf_first.nmask & nx) != 0, "C15.violation_report_prints_the_actual_argument");
    VCLAIM(1, vf_nlog == 0, "C01.reject_no_side_effect");
    for (int i = 0; i < VF_N; ++i)
      VCLAIM(1, cm[i]->sequences->get_calls() == c[i], "C01.reject_no_count_change");
    VCLAIM(16, vf_nok == 0, "C16.no_ok_report_for_rejected_call");
    if (handler >= 0)   // forbidden candidate: report carries that expectation's location (C07)
    {
      VCLAIM(7, vf_first.line == cm[handler]->loc.line && vf_first.file == cm[handler]->loc.file, "C07.forbidden_report_location");
      VCLAIM(7, (vf_first.nmask & nx) != 0, "C07.forbidden_report_prints_the_actual_argument");
      VCLAIM(15, (vf_first.nmask & nx) != 0, "C15.forbidden_report_prints_the_actual_argument");
      VCLAIM(15, vf_first.line == cm[handler]->loc.line && vf_first.fatal, "C15.forbidden_report_fatal_with_expectations_location");
      VCLAIM(7, cm[handler]->is_satisfied() && cm[handler]->is_saturated(), "C07.forbidden_flags");
      VCLAIM(7, cm[handler]->is_linked() && cm[handler]->sequences->is_forbidden(), "C07.forbidden_stays");
    }
  }
  else
  {
    VCLAIM(1, vf_nreports == 0, "C01.accept_no_report");
    // C02/C08: only the newest match acts; its RETURN value comes back; its side effect ran once
    VCLAIM(2, r == 100 + handler, "C02.newest_match_returns");
    VCLAIM(8, vf_nlog == 1 && vf_logv == (unsigned)handler + 1, "C08.only_handler_side_effect_once");
    for (int i = 0; i < VF_N; ++i)
      VCLAIM(2, cm[i]->sequences->get_calls() == (i == handler ? c[i] + 1 : c[i]), "C02.only_handler_counts");
    // C03: flags and list membership track the bounds
    VCLAIM(3, cm[handler]->is_satisfied() == (c[handler] + 1 >= L[handler]), "C03.is_satisfied");
    VCLAIM(3, cm[handler]->is_saturated() == (c[handler] + 1 == H[handler]), "C03.is_saturated");
    // C16: exactly one OK report, carrying the handler's text
    VCLAIM(16, vf_nok == 1, "C16.exactly_one_ok_report");
    VCLAIM(16, vf_ok_last == handler, "C16.ok_report_names_handler");
  }
  // limits never change; list membership: saturated list holds exactly the pre-saturated ones plus a newly saturated handler
  for (int i = 0; i < VF_N; ++i)
  {
    VCLAIM(3, cm[i]->sequences->get_min_calls() == L[i] && cm[i]->sequences->max_calls == H[i], "C03.limits_unchanged");
    bool want_sat = (VF_SAT & (1 << i)) || (accept && i == handler && c[i] + 1 == H[i]);
    bool in_sat = false, in_act = false;
    for (auto &s : saturated) if (&s == cm[i]) in_sat = true;
    for (auto &s : active) if (&s == cm[i]) in_act = true;
    VCLAIM(3, in_sat == want_sat, "C03.saturated_list_membership");
    VCLAIM(3, in_act == !want_sat, "C03.active_list_membership");
  }
  // active list keeps newest-first order of the remaining expectations
  {
    int prev = VF_N;
    bool ordered = true;
    for (auto &s : active)
    {
      int idx = -1;
      for (int i = 0; i < VF_N; ++i) if (&s == cm[i]) idx = i;
      if (idx < 0 || idx >= prev) ordered = false;
      prev = idx;
    }
    VCLAIM(2, ordered, "C02.active_order_newest_first");
  }
  for (int i = 0; i < VF_N; ++i) vf_poke(*cm[i]->sequences, 0, H[i], cm[i]->sequences->get_calls());   // quiet teardown
  verif_reach();
}
