// C05/C15: two sequenced REQUIRE_DESTRUCTION monitors a (first) and b (second) in one sequence; histories over
// {destroy a, destroy b, release a's monitor, release b's monitor} as shapes VF_O1..VF_O4 (1 = delete a, 2 = delete b,
// 3 = release monitor a, 4 = release monitor b).  Every report raised while something is being destroyed must be
// NON-FATAL (a fatal one makes the reporter throw out of a destructor: std::terminate), whatever state the sequence is
// in (including: already empty).  Reference for the counts: a destruction is reported once iff it is not eligible
// (its handle is not first in line among the pending ones, or has been passed already).
#include "vfapi.h"
#ifndef VF_O1
#define VF_O1 2
#endif
#ifndef VF_O2
#define VF_O2 4
#endif
#ifndef VF_O3
#define VF_O3 1
#endif
#ifndef VF_O4
#define VF_O4 3
#endif
struct T { virtual ~T() {} };
using DW = trompeloeil::deathwatched<T>;
static DW *oa, *ob;
static std::unique_ptr<trompeloeil::expectation> ma, mb;
static bool a_dead, b_dead, a_listed = true, b_listed = true, ma_alive = true, mb_alive = true;
static unsigned want;
static void op(int o)
{
  switch (o)
  {
  case 1:
    if (a_dead) return;
    if (!ma_alive) ++want;                       // unexpected destruction
    else if (!a_listed) ++want;                  // passed already: out of sequence (non-fatal)
    delete oa; a_dead = true;
    if (ma_alive) a_listed = false;              // saturates and leaves the sequence
    break;
  case 2:
    if (b_dead) return;
    if (!mb_alive) ++want;
    else if (!b_listed || a_listed) ++want;      // a still pending and required in front of it, or b passed
    delete ob; b_dead = true;
    if (mb_alive) { a_listed = false; b_listed = false; }   // the sequence moves forward past a
    break;
  case 3:
    if (!ma_alive) return;
    if (!a_dead) ++want;                         // still alive
    ma.reset(); ma_alive = false; a_listed = false;
    break;
  case 4:
    if (!mb_alive) return;
    if (!b_dead) ++want;
    mb.reset(); mb_alive = false; b_listed = false;
    break;
  }
  VCLAIM(15, vf_nfatal == 0, "C15.reports_from_destructors_are_nonfatal");
  VCLAIM(5, vf_nfatal == 0, "C05.monitored_destruction_reports_are_nonfatal");
  VCLAIM(5, vf_nreports == want, "C05.destruction_reported_iff_ineligible");
}
extern "C" void harness(void)
{
  trompeloeil::sequence s;
  oa = new DW; ob = new DW;
  ma = NAMED_REQUIRE_DESTRUCTION(*oa).IN_SEQUENCE(s);
  mb = NAMED_REQUIRE_DESTRUCTION(*ob).IN_SEQUENCE(s);
  op(VF_O1); op(VF_O2); op(VF_O3); op(VF_O4);
  op(1); op(2); op(3); op(4);                    // wind down whatever is left
  verif_reach();
}
