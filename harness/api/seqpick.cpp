// C02 with sequences: several live expectations match the same call; the one that passes over the fewest pending
// (optional / satisfied) predecessors wins, the newest on ties; a blocked newer one yields to an older eligible one.
// Scene (VF_SCENE):
//   s1 = [P1 (optional, f(9)), A = f(_)]         A passes over 1 pending predecessor     (cost 1)
//   s2 = [B = f(_)]                               B passes over none                       (cost 0)
//   C = f(_) unsequenced                                                                   (cost 0)
// creation order is a shape: 1: A,B   2: B,A   3: A,C   4: C,A   5: A, A2 (both cost 1 in their own sequences: newest wins)
//   6: A (blocked: P1 required and unsatisfied), B older eligible -> B although A is newer; 7: only blocked A matches -> fatal
// Counters of P1 are symbolic within the regime (optional: L=0; required: L>=1, count<L).
#include "vfapi.h"
#ifndef VF_SCENE
#define VF_SCENE 1
#endif
struct M
{
#line 100
  MAKE_MOCK1(f, int(int));
};
extern "C" void harness(void)
{
  trompeloeil::sequence s1, s2, s3;
  M m;
  int x = (int)verif_nondet_uint(); verif_assume(x != 9);
  size_t pc = verif_nondet_ulong(), pH = verif_nondet_ulong(), pL = verif_nondet_ulong();
#if VF_SCENE >= 6
  verif_assume(pL >= 1 && pL <= pH && pc < pL);           // P1 required and not yet satisfied: A is blocked
#else
  pL = 0; verif_assume(pH > 0 && pc < pH);                 // P1 optional (or: already satisfied), still pending
#endif
#line 200
  auto p1 = NAMED_REQUIRE_CALL(m, f(9)).IN_SEQUENCE(s1).TIMES(0, 1000).RETURN(0);
#if VF_SCENE == 1
  auto a = NAMED_REQUIRE_CALL(m, f(ANY(int))).IN_SEQUENCE(s1).RETURN(1);
  auto b = NAMED_REQUIRE_CALL(m, f(ANY(int))).IN_SEQUENCE(s2).RETURN(2);
  int want = 2;    // B: cost 0 beats A: cost 1
#elif VF_SCENE == 2
  auto b = NAMED_REQUIRE_CALL(m, f(ANY(int))).IN_SEQUENCE(s2).RETURN(2);
  auto a = NAMED_REQUIRE_CALL(m, f(ANY(int))).IN_SEQUENCE(s1).RETURN(1);
  int want = 2;    // still B although A is newer
#elif VF_SCENE == 3
  auto a = NAMED_REQUIRE_CALL(m, f(ANY(int))).IN_SEQUENCE(s1).RETURN(1);
  auto b = NAMED_REQUIRE_CALL(m, f(ANY(int))).RETURN(3);
  int want = 3;    // unsequenced passes over none
#elif VF_SCENE == 4
  auto b = NAMED_REQUIRE_CALL(m, f(ANY(int))).RETURN(3);
  auto a = NAMED_REQUIRE_CALL(m, f(ANY(int))).IN_SEQUENCE(s1).RETURN(1);
  int want = 3;
#elif VF_SCENE == 5
  auto p3 = NAMED_REQUIRE_CALL(m, f(9)).IN_SEQUENCE(s3).TIMES(0, 1000).RETURN(0);
  auto a = NAMED_REQUIRE_CALL(m, f(ANY(int))).IN_SEQUENCE(s1).RETURN(1);
  auto b = NAMED_REQUIRE_CALL(m, f(ANY(int))).IN_SEQUENCE(s3).RETURN(4);
  int want = 4;    // equal cost 1: the most recently created
#elif VF_SCENE == 6
  auto b = NAMED_REQUIRE_CALL(m, f(ANY(int))).IN_SEQUENCE(s2).RETURN(2);
  auto a = NAMED_REQUIRE_CALL(m, f(ANY(int))).IN_SEQUENCE(s1).RETURN(1);
  int want = 2;    // A is newer but blocked: the older eligible B takes the call
#else
  auto a = NAMED_REQUIRE_CALL(m, f(ANY(int))).IN_SEQUENCE(s1).RETURN(1);
  auto b = NAMED_REQUIRE_CALL(m, f(8)).IN_SEQUENCE(s2).RETURN(2);
  int want = -1;   // only the blocked A matches: exactly one fatal sequence violation, nothing changes
  verif_assume(x != 8);
#endif
#line 300
  vf_poke(*p1->sequences, pL, pH, pc);
  bool threw = false; int r = -1;
  try { r = m.f(x); } catch (vf_reported &) { threw = true; }
  if (want >= 0)
  {
    VCLAIM(2, !threw && vf_nreports == 0 && r == want, "C02.fewest_pending_predecessors_then_newest");
    VCLAIM(2, (r == 1 ? b->sequences->get_calls() : a->sequences->get_calls()) == 0, "C02.the_other_candidate_is_untouched");
    VCLAIM(2, p1->sequences->get_calls() == pc, "C02.predecessor_untouched");
  }
  else
  {
    VCLAIM(5, threw && vf_nreports == 1 && vf_first.fatal, "C05.only_ineligible_match_is_one_fatal_report");
    VCLAIM(5, a->sequences->get_calls() == 0 && b->sequences->get_calls() == 0 && p1->sequences->get_calls() == pc, "C05.ineligible_match_changes_nothing");
  }
  for (auto *h : {p1->sequences.get(), a->sequences.get(), b->sequences.get()}) vf_poke(*h, 0, 1, 0);
#if VF_SCENE == 5
  vf_poke(*p3->sequences, 0, 1, 0);
#endif
  verif_reach();
}
