// C05 one-step induction at API level: three real expectations f(0), f(1), f(2) on one mock function, each
// IN_SEQUENCE of a subset of {s1, s2} (VF_MB0/1/2: bit0 = s1, bit1 = s2, 0 = unsequenced), registered in
// this order; arbitrary counters; VF_GONE = expectations already retired from their sequences (by a
// successor's earlier match); then ONE real call f(VF_CALL).
// Pre-state invariant (reachable histories, with forward-only sequences):
//   L<=H, 0<H, count<H (still active);  a listed expectation with count>0 has no listed predecessor in any of its sequences.
#include "vfapi.h"
#ifndef VF_MB0
#define VF_MB0 1
#define VF_MB1 1
#define VF_MB2 1
#endif
#ifndef VF_GONE
#define VF_GONE 0
#endif
#ifndef VF_CALL
#define VF_CALL 1
#endif
struct M
{
#line 100
  MAKE_MOCK1(f, int(int));
};
using CM = vf_cm_t<int(int), int>;
#define SEQ_1 .IN_SEQUENCE(s1)
#define SEQ_2 .IN_SEQUENCE(s2)
#define SEQ_3 .IN_SEQUENCE(s1, s2)
#define SEQ_0
#define CAT_(a, b) a##b
#define CAT(a, b) CAT_(a, b)
static const int MB[3] = {VF_MB0, VF_MB1, VF_MB2};

// is expectation i's handle for sequence S (0 = s1, 1 = s2) still linked in that sequence?
static bool linked_in(CM *cm, int mb, int S)
{
  if (mb == 3) return static_cast<trompeloeil::sequence_handler<2> *>(cm->sequences.get())->matchers.matchers[S].is_linked();
  if (mb == 1 || mb == 2) return static_cast<trompeloeil::sequence_handler<1> *>(cm->sequences.get())->matchers.matchers[0].is_linked();
  return false;
}

extern "C" void harness(void)
{
  trompeloeil::sequence s1, s2;
  M m;
  size_t L[3], H[3], c[3];
  for (int i = 0; i < 3; ++i)
  {
    L[i] = verif_nondet_ulong(); H[i] = verif_nondet_ulong(); c[i] = verif_nondet_ulong();
    verif_assume(L[i] <= H[i] && H[i] > 0 && c[i] < H[i]);
  }
#line 200
  auto e0 = NAMED_REQUIRE_CALL(m, f(0)) CAT(SEQ_, VF_MB0) .RETURN(100);
#line 210
  auto e1 = NAMED_REQUIRE_CALL(m, f(1)) CAT(SEQ_, VF_MB1) .RETURN(101);
#line 220
  auto e2 = NAMED_REQUIRE_CALL(m, f(2)) CAT(SEQ_, VF_MB2) .RETURN(102);
#line 300
  CM *cm[3] = {e0.get(), e1.get(), e2.get()};
  bool listed[3][2];
  for (int i = 0; i < 3; ++i)
  {
    vf_poke(*cm[i]->sequences, L[i], H[i], c[i]);
    if (VF_GONE & (1 << i)) cm[i]->sequences->retire();
    for (int S = 0; S < 2; ++S) listed[i][S] = (MB[i] & (1 << S)) && !(VF_GONE & (1 << i));
  }
  // invariant: listed with count>0  =>  no listed predecessor in any of its sequences
  for (int i = 0; i < 3; ++i)
    for (int S = 0; S < 2; ++S)
      if (listed[i][S])
        for (int j = 0; j < i; ++j)
          if (listed[j][S]) verif_assume(c[i] == 0);
  // the harness' reading of the real state agrees with its own bookkeeping
  for (int i = 0; i < 3; ++i)
    for (int S = 0; S < 2; ++S)
      if (MB[i] & (1 << S)) VASSERT(linked_in(cm[i], MB[i], MB[i] == 2 ? 0 : S) == listed[i][S], "harness.prestate");

  const int k = VF_CALL;
  auto sat = [&](int i) { return c[i] >= L[i]; };
  bool eligible = true;
  for (int S = 0; S < 2; ++S)
    if (MB[k] & (1 << S))
    {
      if (!listed[k][S]) eligible = false;
      for (int j = 0; j < k; ++j) if (listed[j][S] && !sat(j)) eligible = false;
    }
  VCLAIM(5, cm[k]->sequences->can_be_called() == eligible, "C05.eligible_iff_pending_predecessors_satisfied");

  bool threw = false; int r = -1;
  try { r = m.f(k); } catch (vf_reported &) { threw = true; }

  VCLAIM(5, threw == !eligible, "C05.accepted_iff_eligible");
  if (!eligible)
  {
    VCLAIM(5, vf_nreports == 1 && vf_first.fatal, "C05.ineligible_exactly_one_fatal_report");
    VCLAIM(1, vf_nreports == 1 && vf_first.fatal, "C01.out_of_sequence_call_is_exactly_one_fatal_report");
    VCLAIM(15, vf_nreports >= 1 && vf_first.fatal, "C15.sequence_violation_from_call_is_fatal");
    VCLAIM(15, vf_first.line == cm[k]->loc.line && vf_first.file == cm[k]->loc.file, "C15.sequence_report_carries_expectation_location");
    VCLAIM(16, vf_nok == 0, "C16.no_ok_report_for_out_of_sequence_call");
    for (int i = 0; i < 3; ++i)
    {
      VCLAIM(5, cm[i]->sequences->get_calls() == c[i], "C05.ineligible_no_count_change");
      VCLAIM(1, cm[i]->sequences->get_calls() == c[i], "C01.rejected_call_changes_no_count");
      for (int S = 0; S < 2; ++S)
        if (MB[i] & (1 << S)) VCLAIM(5, linked_in(cm[i], MB[i], MB[i] == 2 ? 0 : S) == listed[i][S], "C05.ineligible_no_sequence_change");
    }
  }
  else
  {
    VCLAIM(5, vf_nreports == 0 && r == 100 + k, "C05.eligible_call_handled");
    VCLAIM(16, vf_nok == 1, "C16.one_ok_report_for_sequenced_call");
    for (int i = 0; i < 3; ++i)
      VCLAIM(5, cm[i]->sequences->get_calls() == (i == k ? c[i] + 1 : c[i]), "C05.only_callee_counts");
    // forward only: every predecessor of the callee has left every sequence the callee names
    for (int S = 0; S < 2; ++S)
      if (MB[k] & (1 << S))
      {
        for (int j = 0; j < k; ++j) if (listed[j][S]) listed[j][S] = false;
        if (c[k] + 1 == H[k]) listed[k][S] = false;           // saturated: leaves its sequences
      }
    for (int i = 0; i < 3; ++i)
      for (int S = 0; S < 2; ++S)
        if (MB[i] & (1 << S))
        {
          bool l = linked_in(cm[i], MB[i], MB[i] == 2 ? 0 : S);
          if (i < k) VCLAIM(5, l == listed[i][S], "C05.predecessors_retired_on_match");
          else VCLAIM(5, l == listed[i][S], "C05.sequence_membership_after_match");
        }
    // consequently no predecessor can match again
    for (int j = 0; j < k; ++j)
      if ((MB[j] & MB[k]) != 0)
      {
        VCLAIM(5, !cm[j]->sequences->can_be_called(), "C05.predecessor_cannot_match_again");
        VCLAIM(2, !cm[j]->sequences->can_be_called(), "C02.passed_predecessors_cannot_take_later_calls");
      }
    // C06: is_completed reflects exactly the pending ones
    bool comp1 = true, comp2 = true;
    for (int i = 0; i < 3; ++i)
    {
      size_t ci = i == k ? c[i] + 1 : c[i];
      if (listed[i][0] && ci < L[i]) comp1 = false;
      if (listed[i][1] && ci < L[i]) comp2 = false;
    }
    VCLAIM(6, s1.is_completed() == comp1 && s2.is_completed() == comp2, "C06.is_completed_after_step");
  }
  for (int i = 0; i < 3; ++i) vf_poke(*cm[i]->sequences, 0, H[i], cm[i]->sequences->get_calls());   // quiet teardown
  e0.reset(); e1.reset(); e2.reset();
  verif_reach();
}
