// Straight-line API "plumbing" scenes (concrete control, symbolic data): lifetimes, isolation, shadowing, moves.
// VF_SCENE selects the scene; obligations are tagged with the property they serve.
#include "vfapi.h"
#ifndef VF_SCENE
#define VF_SCENE 1
#endif
struct M
{
#line 100
  MAKE_MOCK1(f, int(int));
#line 110
  MAKE_MOCK1(f, int(long));
#line 120
  MAKE_MOCK1(g, int(int));
};
struct MM
{
  static constexpr bool trompeloeil_movable_mock = true;
#line 130
  MAKE_MOCK1(f, int(int));
};
static bool rejected(M &m, int x) { unsigned n = vf_nreports; bool t = false; try { m.f(x); } catch (vf_reported &) { t = true; } return t && vf_nreports == n + 1 && vf_last.fatal; }
static bool rejected_l(M &m, long x) { unsigned n = vf_nreports; bool t = false; try { m.f(x); } catch (vf_reported &) { t = true; } return t && vf_nreports == n + 1 && vf_last.fatal; }
static bool rejected_g(M &m, int x) { unsigned n = vf_nreports; bool t = false; try { m.g(x); } catch (vf_reported &) { t = true; } return t && vf_nreports == n + 1 && vf_last.fatal; }

extern "C" void harness(void)
{
  int x = (int)verif_nondet_uint(), rv = (int)verif_nondet_uint(), rv2 = (int)verif_nondet_uint();
  unsigned effects = 0;
  { auto l = trompeloeil::get_lock(); }   // first use initialises the function-local static mutex: do it on a concrete path
#if VF_SCENE == 1      /* scoped expectation expired before the call */
  M m;
  {
#line 200
    ALLOW_CALL(m, f(ANY(int))).RETURN(rv);
    VCLAIM(1, m.f(x) == rv && vf_nreports == 0, "C01.live_expectation_accepts");
  }
  VCLAIM(1, rejected(m, x), "C01.call_after_expectation_expired_is_rejected");
  VCLAIM(1, rejected(m, x), "C01.rejected_again");
#elif VF_SCENE == 2    /* NAMED expectation released, another still alive */
  M m;
#line 210
  auto a = NAMED_ALLOW_CALL(m, f(ANY(int))).LR_SIDE_EFFECT(++effects).RETURN(rv);
#line 220
  auto b = NAMED_ALLOW_CALL(m, f(ANY(int))).RETURN(rv2);
  VCLAIM(2, m.f(x) == rv2 && effects == 0, "C02.newest_takes_the_call");
  b.reset();
  VCLAIM(1, m.f(x) == rv && effects == 1, "C01.older_takes_over_when_newer_released");
  a.reset();
  VCLAIM(1, rejected(m, x) && effects == 1, "C01.nothing_left_rejects");
#elif VF_SCENE == 3    /* another object of the same class */
  M m1, m2;
#line 230
  auto a = NAMED_REQUIRE_CALL(m1, f(ANY(int))).LR_SIDE_EFFECT(++effects).RETURN(rv);
  VCLAIM(2, rejected(m2, x), "C02.expectation_on_other_object_never_matches");
  VCLAIM(2, effects == 0 && !a->is_satisfied() && !a->is_saturated(), "C02.other_objects_expectation_untouched");
  VCLAIM(2, m1.f(x) == rv && effects == 1 && a->is_saturated(), "C02.own_object_accepts");
#elif VF_SCENE == 4    /* another overload of the same name */
  M m;
#line 240
  auto a = NAMED_REQUIRE_CALL(m, f(ANY(int))).LR_SIDE_EFFECT(++effects).RETURN(rv);
  VCLAIM(2, rejected_l(m, (long)x), "C02.expectation_on_other_overload_never_matches");
  VCLAIM(2, effects == 0 && !a->is_satisfied(), "C02.other_overloads_expectation_untouched");
  VCLAIM(2, m.f(x) == rv && effects == 1, "C02.own_overload_accepts");
#elif VF_SCENE == 5    /* another mock function of the same object */
  M m;
#line 250
  auto a = NAMED_REQUIRE_CALL(m, f(ANY(int))).LR_SIDE_EFFECT(++effects).RETURN(rv);
  VCLAIM(2, rejected_g(m, x), "C02.expectation_on_other_function_never_matches");
  VCLAIM(2, effects == 0 && !a->is_satisfied(), "C02.other_functions_expectation_untouched");
  VCLAIM(2, m.f(x) == rv && effects == 1, "C02.own_function_accepts");
#elif VF_SCENE == 6    /* FORBID_CALL shadows an older allowance only for what it matches, any number of times, and stops at its death */
  M m;
#line 260
  ALLOW_CALL(m, f(ANY(int))).LR_SIDE_EFFECT(++effects).RETURN(rv);
  {
#line 270
    auto fb = NAMED_FORBID_CALL(m, f(7));
    VCLAIM(7, m.f(8) == rv && effects == 1 && vf_nreports == 0, "C07.non_matching_call_passes_the_forbid_by");
    VCLAIM(7, rejected(m, 7) && effects == 1, "C07.matching_call_is_one_fatal_report_no_action");
    VCLAIM(7, vf_last.line == 270, "C07.forbidden_report_carries_forbids_location");
    VCLAIM(7, rejected(m, 7) && effects == 1, "C07.forbidden_again_same_outcome");
    VCLAIM(1, effects == 1 && fb->sequences->get_calls() == 0, "C01.forbidden_candidate_rejected_every_time_no_count_change");
    VCLAIM(1, rejected(m, 7) && effects == 1 && fb->sequences->get_calls() == 0, "C01.forbidden_candidate_rejected_a_third_time");
    VCLAIM(7, fb->is_satisfied() && fb->is_saturated(), "C07.forbid_always_satisfied_and_saturated");
    VCLAIM(16, vf_nok == 1, "C16.ok_reports_only_for_accepted_calls");
  }
  unsigned before = vf_nreports;
  VCLAIM(7, m.f(7) == rv && effects == 2 && vf_nreports == before, "C07.after_forbid_died_as_if_never_existed");
  VCLAIM(7, vf_nreports == before, "C07.forbid_never_reports_at_end_of_life");
#elif VF_SCENE == 7    /* a saturated newer expectation stops shadowing the older one; beyond max is fatal */
  M m;
#line 280
  auto old = NAMED_REQUIRE_CALL(m, f(ANY(int))).TIMES(2).RETURN(rv);
#line 290
  auto nw = NAMED_REQUIRE_CALL(m, f(ANY(int))).RETURN(rv2);
  VCLAIM(3, m.f(x) == rv2 && nw->is_saturated() && !old->is_satisfied(), "C03.newest_first");
  VCLAIM(3, m.f(x) == rv && !old->is_satisfied() && !old->is_saturated(), "C03.saturated_newer_stops_shadowing");
  VCLAIM(3, m.f(x) == rv && old->is_satisfied() && old->is_saturated(), "C03.older_handles_up_to_its_max");
  VCLAIM(3, rejected(m, x), "C03.matching_call_beyond_max_is_fatal");
  VCLAIM(3, old->is_saturated() && nw->is_saturated(), "C03.rejected_call_changes_nothing");
  VCLAIM(16, vf_nok == 3, "C16.one_ok_report_per_accepted_call");
#elif VF_SCENE == 8    /* AT_LEAST / AT_MOST / TIMES(n,m) / ALLOW / FORBID / default store the documented limits */
  M m;
  {
#line 300
    auto e1 = NAMED_REQUIRE_CALL(m, f(ANY(int))).RETURN(0);
#line 301
    auto e2 = NAMED_REQUIRE_CALL(m, f(ANY(int))).TIMES(3).RETURN(0);
#line 302
    auto e3 = NAMED_REQUIRE_CALL(m, f(ANY(int))).TIMES(2, 5).RETURN(0);
#line 303
    auto e4 = NAMED_REQUIRE_CALL(m, f(ANY(int))).TIMES(AT_LEAST(4)).RETURN(0);
#line 304
    auto e5 = NAMED_REQUIRE_CALL(m, f(ANY(int))).TIMES(AT_MOST(6)).RETURN(0);
#line 305
    auto e6 = NAMED_ALLOW_CALL(m, f(ANY(int))).RETURN(0);
#line 306
    auto e7 = NAMED_FORBID_CALL(m, f(ANY(int)));
    size_t lo = 2, hi = 5;   // (the comparison low<=high steers control: all 64-bit values are decided in C03/times.cpp)
#line 307
    auto e8 = NAMED_REQUIRE_CALL(m, f(ANY(int))).RT_TIMES(lo, hi).RETURN(0);
#line 308
    auto e9 = NAMED_REQUIRE_CALL(m, f(ANY(int))).RT_TIMES(lo).RETURN(0);
#define LIM(e, a, b) ((e)->sequences->get_min_calls() == (size_t)(a) && (e)->sequences->max_calls == (size_t)(b) && (e)->sequences->get_calls() == 0)
    VCLAIM(3, LIM(e1, 1, 1), "C03.default_bounds_1_1");
    VCLAIM(3, LIM(e2, 3, 3), "C03.TIMES_n");
    VCLAIM(3, LIM(e3, 2, 5), "C03.TIMES_n_m");
    VCLAIM(3, LIM(e4, 4, ~(size_t)0), "C03.AT_LEAST");
    VCLAIM(3, LIM(e5, 0, 6), "C03.AT_MOST");
    VCLAIM(3, LIM(e6, 0, ~(size_t)0), "C03.ALLOW_CALL_bounds");
    VCLAIM(3, LIM(e7, 0, 0) && e7->is_satisfied() && e7->is_saturated(), "C03.FORBID_CALL_bounds");
    VCLAIM(3, LIM(e8, lo, hi), "C03.RT_TIMES_low_high_verbatim");
    VCLAIM(3, LIM(e9, lo, lo), "C03.RT_TIMES_single_value");
    for (auto *h : {e1->sequences.get(), e2->sequences.get(), e3->sequences.get(), e4->sequences.get(), e8->sequences.get(), e9->sequences.get()}) vf_poke(*h, 0, 1, 0);
  }
  VCLAIM(3, vf_nreports == 0, "C03.quiet");
#elif VF_SCENE == 9    /* RT_TIMES with low > high throws std::logic_error and leaves nothing behind */
  M m;
  trompeloeil::sequence s;
  size_t lo = 5, hi = 2;   // inverted (all 64-bit values: C03/times.cpp)
  bool le = false;
  try
  {
#line 310
    auto e = NAMED_REQUIRE_CALL(m, f(ANY(int))).IN_SEQUENCE(s).RT_TIMES(lo, hi).RETURN(0);
    (void)e;
  }
  catch (std::logic_error &) { le = true; }
  VCLAIM(3, le, "C03.inverted_RT_TIMES_throws_logic_error");
  VCLAIM(3, m.trompeloeil_l_expectations_100.active.empty() && m.trompeloeil_l_expectations_100.saturated.empty(), "C03.inverted_RT_TIMES_leaves_no_expectation");
  VCLAIM(3, s.is_completed(), "C03.inverted_RT_TIMES_leaves_no_sequence_registration");
  VCLAIM(3, rejected(m, x), "C03.inverted_RT_TIMES_call_finds_nothing");
  VCLAIM(3, vf_nreports == 1, "C03.inverted_RT_TIMES_no_other_report");
#elif VF_SCENE == 10   /* a moved mock: active and saturated expectations follow it */
  MM *a = new MM;
#line 320
  auto e1 = NAMED_REQUIRE_CALL(*a, f(ANY(int))).TIMES(2).RETURN(rv);
#line 330
  auto e2 = NAMED_REQUIRE_CALL(*a, f(ANY(int))).RETURN(rv2);
  VCLAIM(14, a->f(x) == rv2 && e2->is_saturated(), "C14.setup_saturate_newer");
  MM b(std::move(*a));
  unsigned n0 = vf_nreports; bool t = false;
  try { a->f(x); } catch (vf_reported &) { t = true; }
  VCLAIM(14, t && vf_nreports == n0 + 1, "C14.moved_from_mock_has_no_expectations");
  delete a;                                       // destroying the moved-from object reports nothing and frees nothing the target uses
  VCLAIM(14, vf_nreports == n0 + 1, "C14.moved_from_destruction_silent");
  VCLAIM(4, vf_nreports == n0 + 1, "C04.moved_from_destruction_silent");
  VCLAIM(14, b.f(x) == rv && b.f(x) == rv && e1->is_saturated(), "C14.active_expectations_follow_the_move");
  t = false; n0 = vf_nreports;
  unsigned wsatreq = vf_needle("\nMatches saturated call requirement\n");
  try { b.f(x); } catch (vf_reported &) { t = true; }
  VCLAIM(14, t && vf_nreports == n0 + 1 && vf_last.fatal, "C14.saturated_expectations_follow_the_move");
  // both saturated expectations (one saturated before the move, one after) are named by the no-match report on the new object
  VCLAIM(14, (vf_last.mask & wsatreq) != 0, "C14.moved_mock_still_knows_its_saturated_expectations");
  VCLAIM(15, (vf_last.mask & wsatreq) != 0, "C15.no_match_on_moved_mock_lists_saturated_expectations");
  VCLAIM(3, (vf_last.mask & wsatreq) != 0, "C03.beyond_max_on_moved_mock_names_saturated_expectation");
#elif VF_SCENE == 13   /* a moved mock: list membership right after the move (small scene: active AND saturated lists follow) */
  MM a;
#line 420
  auto e1 = NAMED_REQUIRE_CALL(a, f(ANY(int))).TIMES(2).RETURN(rv);
#line 430
  auto e2 = NAMED_REQUIRE_CALL(a, f(ANY(int))).RETURN(rv2);
  VCLAIM(14, a.f(x) == rv2 && e2->is_saturated(), "C14.setup_saturate_newer");
  {
    MM b(std::move(a));
    auto &bl = b.trompeloeil_l_expectations_130; auto &al = a.trompeloeil_l_expectations_130;
    bool ok = !bl.active.empty() && &*bl.active.begin() == e1.get() && !bl.saturated.empty() && &*bl.saturated.begin() == e2.get()
              && al.active.empty() && al.saturated.empty();
    VCLAIM(14, ok, "C14.active_and_saturated_lists_follow_the_move");
    VCLAIM(15, ok, "C15.saturated_expectations_of_a_moved_mock_stay_known");
    VCLAIM(4, ok, "C04.expectations_of_a_moved_mock_belong_to_the_new_object");
    vf_poke(*e1->sequences, 0, 2, 0);
  }
  VCLAIM(14, !e1->is_linked() && !e2->is_linked() && vf_nreports == 0, "C14.expectations_detached_when_the_new_object_dies");
#elif VF_SCENE == 14   /* a sequenced NAMED expectation outlives its mock: it stays registered, blocks completion, and is listed at teardown */
  auto *pm = new M;
  auto *s = new trompeloeil::sequence;
#line 440
  auto e0 = NAMED_REQUIRE_CALL(*pm, f(0)).IN_SEQUENCE(*s).TIMES(AT_LEAST(0)).RETURN(rv);
#line 450
  auto e1 = NAMED_REQUIRE_CALL(*pm, f(1)).IN_SEQUENCE(*s).RETURN(rv2);
  unsigned w0 = vf_needle("*pm.f(0)"), w1 = vf_needle("*pm.f(1)"), wpend = vf_needle("Pending expectation on destroyed mock object"),
           wseq = vf_needle("Sequence expectations not met at destruction of sequence object \"");
  (void)wpend;
  VCLAIM(6, !s->is_completed(), "C06.setup_incomplete");
  delete pm;                                       // e1 is unfulfilled: one non-fatal report; e0 is satisfied: silent
  VCLAIM(6, vf_nreports == 1 && !vf_last.fatal && vf_last.line == 450, "C06.setup_mock_death_reports_the_unfulfilled_expectation");
  VCLAIM(6, !s->is_completed(), "C06.expectation_that_outlives_its_mock_still_blocks_completion");
  VCLAIM(6, e0->is_satisfied() && !e1->is_satisfied(), "C06.flags_unchanged_by_mock_death");
  delete s;
  VCLAIM(6, vf_nreports == 2 && !vf_last.fatal && (vf_last.mask & wseq), "C06.teardown_reports_once");
  VCLAIM(6, (vf_last.mask & w0) && (vf_last.mask & w1), "C06.teardown_lists_expectations_that_outlived_their_mock");
  e0.reset(); e1.reset();
  VCLAIM(4, vf_nreports == 2, "C04.no_second_report_for_an_expectation_already_named");
#elif VF_SCENE == 15   /* RT_TIMES(0) in a sequence: wherever it stands in line, a matching call is a forbidden-call report */
  M m;
  trompeloeil::sequence s;
  size_t zero = 0;
#line 460
  auto e0 = NAMED_REQUIRE_CALL(m, f(0)).IN_SEQUENCE(s).RETURN(rv);
#line 470
  auto ef = NAMED_REQUIRE_CALL(m, f(5)).RT_TIMES(zero).IN_SEQUENCE(s).LR_SIDE_EFFECT(++effects).RETURN(rv2);
  unsigned wforb = vf_needle("Match of forbidden call of "), wseqm = vf_needle("Sequence mismatch for sequence \""), wparam = vf_needle("  param ");
  bool t = false; try { m.f(5); } catch (vf_reported &) { t = true; }
  VCLAIM(7, t && vf_nreports == 1 && vf_last.fatal, "C07.forbidden_sequenced_expectation_behind_a_pending_predecessor_is_one_fatal_report");
  VCLAIM(7, (vf_last.mask & wforb) && !(vf_last.mask & wseqm), "C07.report_is_the_forbidden_call_report_not_a_sequence_mismatch");
  VCLAIM(7, vf_last.line == 470 && (vf_last.mask & wparam), "C07.forbidden_report_carries_location_and_arguments");
  VCLAIM(7, effects == 0 && vf_nok == 0 && ef->is_satisfied() && ef->is_saturated(), "C07.nothing_runs_and_it_stays_satisfied_and_saturated");
  VCLAIM(7, m.f(0) == rv && vf_nreports == 1, "C07.predecessor_still_callable");
  t = false; try { m.f(5); } catch (vf_reported &) { t = true; }
  VCLAIM(7, t && vf_nreports == 2 && vf_last.fatal && (vf_last.mask & wforb) && vf_last.line == 470, "C07.forbidden_again_when_first_in_line");
  VCLAIM(7, effects == 0 && vf_nok == 1, "C07.nothing_runs_second_time");
#elif VF_SCENE == 16   /* a mock that is destroyed from inside the side effect of the call that saturates a NAMED expectation */
  auto *pm = new M;
#line 480
  auto e = NAMED_REQUIRE_CALL(*pm, f(ANY(int))).LR_SIDE_EFFECT(delete pm).LR_SIDE_EFFECT(++effects).RETURN(rv);
  int r = pm->f(x);
  VCLAIM(14, r == rv && effects == 1 && vf_nreports == 0, "C14.call_that_destroys_its_own_mock_completes");
  VCLAIM(14, !e->is_linked() && e->is_saturated() && e->is_satisfied(), "C14.expectation_detached_from_the_dead_mock_and_counted");
  e.reset();
  VCLAIM(14, vf_nreports == 0, "C14.release_after_the_mock_died_is_silent");
#elif VF_SCENE == 12   /* multiplicity written BEFORE IN_SEQUENCE: the limits survive the switch to a sequenced handler, also for L == 1 */
  M m;
  trompeloeil::sequence s1, s2;
  {
#line 400
    auto e1 = NAMED_REQUIRE_CALL(m, f(ANY(int))).TIMES(1, 3).IN_SEQUENCE(s1).RETURN(0);
#line 401
    auto e2 = NAMED_REQUIRE_CALL(m, f(ANY(int))).TIMES(AT_LEAST(1)).IN_SEQUENCE(s1).RETURN(0);
#line 402
    auto e3 = NAMED_REQUIRE_CALL(m, f(ANY(int))).RT_TIMES(1, 2).IN_SEQUENCE(s1, s2).RETURN(0);
#line 403
    auto e4 = NAMED_REQUIRE_CALL(m, f(ANY(int))).TIMES(2, 4).IN_SEQUENCE(s2).RETURN(0);
#line 404
    auto e5 = NAMED_REQUIRE_CALL(m, f(ANY(int))).TIMES(0, 2).IN_SEQUENCE(s2).RETURN(0);
#line 405
    auto e6 = NAMED_REQUIRE_CALL(m, f(ANY(int))).IN_SEQUENCE(s2).TIMES(1, 5).RETURN(0);
#define LIM2(e, a, b) ((e)->sequences->get_min_calls() == (size_t)(a) && (e)->sequences->max_calls == (size_t)(b) && (e)->sequences->get_calls() == 0)
    VCLAIM(3, LIM2(e1, 1, 3), "C03.TIMES_1_n_before_IN_SEQUENCE_keeps_bounds");
    VCLAIM(3, LIM2(e2, 1, ~(size_t)0), "C03.AT_LEAST_1_before_IN_SEQUENCE_keeps_bounds");
    VCLAIM(3, LIM2(e3, 1, 2), "C03.RT_TIMES_1_n_before_IN_SEQUENCE_keeps_bounds");
    VCLAIM(3, LIM2(e4, 2, 4) && LIM2(e5, 0, 2) && LIM2(e6, 1, 5), "C03.bounds_and_IN_SEQUENCE_in_either_order");
    for (auto *h : {e1->sequences.get(), e2->sequences.get(), e3->sequences.get(), e4->sequences.get(), e5->sequences.get(), e6->sequences.get()}) vf_poke(*h, 0, 1, 0);
  }
  VCLAIM(3, vf_nreports == 0, "C03.quiet");
#elif VF_SCENE == 11   /* a side effect calls another mock function of the same object (recursive lock), then RETURN uses its result */
  M m;
  int inner = 0; unsigned order = 0, at_inner = 0, at_outer = 0;
#line 340
  ALLOW_CALL(m, g(ANY(int))).LR_SIDE_EFFECT(at_inner = ++order).RETURN(_1 + 1);
#line 350
  auto e = NAMED_REQUIRE_CALL(m, f(ANY(int))).LR_SIDE_EFFECT(inner = m.g(_1)).LR_SIDE_EFFECT(at_outer = ++order).LR_RETURN(inner);
  int r = m.f(x);
  VCLAIM(8, r == x + 1 && vf_nreports == 0, "C08.recursive_mock_call_from_side_effect");
  VCLAIM(8, at_inner == 1 && at_outer == 2, "C08.side_effects_in_order_around_recursive_call");
  VCLAIM(8, e->is_saturated(), "C08.outer_call_counted_once");
  VCLAIM(16, vf_nok == 2, "C16.one_ok_report_per_accepted_call_also_when_nested");
  VCLAIM(12, verif_lock_depth() == 0, "C12.recursive_lock_balanced");
#endif
  verif_reach();
}
