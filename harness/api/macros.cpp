// Every public spelling of the expectation macros stores the documented limits and keeps its clauses.
// The C++11-compatible _V spellings dispatch on the number of arguments (2: _F arm, > 2: _T arm); each arm of each of
// REQUIRE / ALLOW / FORBID x scoped / NAMED is a separate macro body.  VF_FORM selects the family (keeps queries small):
//   1 NAMED_*_V   2 scoped *_V   3 the C++14 spellings incl. NAMED_FORBID_CALL / NAMED_ALLOW_CALL
// Obligations (tagged C03 limits, C04 allow never reports, C07 forbid shadows only what it matches):
//   limits per form, WITH clauses present and effective, FORBID arms report "forbidden", ALLOW arms silent at end of life.
#include "vfapi.h"
#ifndef VF_FORM
#define VF_FORM 1
#endif
struct M
{
#line 100
  MAKE_MOCK1(f, void(int));
};
using CM = vf_cm_t<void(int), int>;
using CMA = vf_cm_t<void(int), trompeloeil::wildcard>;
#define LIM(e, a, b) ((e)->sequences->get_min_calls() == (size_t)(a) && (e)->sequences->max_calls == (size_t)(b) && (e)->sequences->get_calls() == 0)
#define INF (~(size_t)0)
template <typename E> static size_t nconds(E &e) { size_t n = 0; for (auto &c : e.conditions) { (void)c; ++n; } return n; }
static bool rejected(M &m, int x, unsigned needle)
{
  unsigned n = vf_nreports; bool t = false;
  try { m.f(x); } catch (vf_reported &) { t = true; }
  return t && vf_nreports == n + 1 && vf_last.fatal && (vf_last.mask & needle);
}

extern "C" void harness(void)
{
  int x = (int)verif_nondet_uint();
  { auto l = trompeloeil::get_lock(); }
  unsigned wforb = vf_needle("Match of forbidden call of "), wnom = vf_needle("No match for call of ");
  unsigned hits = 0;
  {
    M m;
#if VF_FORM == 1
    auto a1 = NAMED_ALLOW_CALL_V(m, f(1));
    auto a2 = NAMED_ALLOW_CALL_V(m, f(trompeloeil::_), .WITH(_1 == 2) .LR_SIDE_EFFECT(++hits));
    auto r1 = NAMED_REQUIRE_CALL_V(m, f(3));
    auto r2 = NAMED_REQUIRE_CALL_V(m, f(4), .TIMES(2, 5));
    auto f1 = NAMED_FORBID_CALL_V(m, f(5));
    auto f2 = NAMED_FORBID_CALL_V(m, f(trompeloeil::_), .WITH(_1 == 6));
    auto *ca1 = a1.get(); auto *ca2 = a2.get();
    auto *cr1 = r1.get(); auto *cr2 = r2.get();
    auto *cf1 = f1.get(); auto *cf2 = f2.get();
#elif VF_FORM == 2
    ALLOW_CALL_V(m, f(1));
    ALLOW_CALL_V(m, f(trompeloeil::_), .WITH(_1 == 2) .LR_SIDE_EFFECT(++hits));
    REQUIRE_CALL_V(m, f(3));
    REQUIRE_CALL_V(m, f(4), .TIMES(2, 5));
    FORBID_CALL_V(m, f(5));
    FORBID_CALL_V(m, f(trompeloeil::_), .WITH(_1 == 6));
    // newest first in the active list
    auto it = m.trompeloeil_l_expectations_100.active.begin();
    auto *cf2 = static_cast<CMA *>(&*it); ++it; auto *cf1 = static_cast<CM *>(&*it); ++it;
    auto *cr2 = static_cast<CM *>(&*it); ++it; auto *cr1 = static_cast<CM *>(&*it); ++it;
    auto *ca2 = static_cast<CMA *>(&*it); ++it; auto *ca1 = static_cast<CM *>(&*it);
#else
    auto a1 = NAMED_ALLOW_CALL(m, f(1));
    auto a2 = NAMED_ALLOW_CALL(m, f(trompeloeil::_)).WITH(_1 == 2).LR_SIDE_EFFECT(++hits);
    auto r1 = NAMED_REQUIRE_CALL(m, f(3));
    auto r2 = NAMED_REQUIRE_CALL(m, f(4)).TIMES(2, 5);
    auto f1 = NAMED_FORBID_CALL(m, f(5));
    auto f2 = NAMED_FORBID_CALL(m, f(trompeloeil::_)).WITH(_1 == 6);
    auto *ca1 = a1.get(); auto *ca2 = a2.get();
    auto *cr1 = r1.get(); auto *cr2 = r2.get();
    auto *cf1 = f1.get(); auto *cf2 = f2.get();
#endif
    VCLAIM(3, LIM(ca1, 0, INF), "C03.ALLOW_two_argument_form_is_0_to_infinity");
    VCLAIM(3, LIM(ca2, 0, INF), "C03.ALLOW_form_with_clauses_is_0_to_infinity");
    VCLAIM(3, LIM(cr1, 1, 1), "C03.REQUIRE_two_argument_form_is_exactly_once");
    VCLAIM(3, LIM(cr2, 2, 5), "C03.REQUIRE_form_with_TIMES_keeps_its_bounds");
    VCLAIM(3, LIM(cf1, 0, 0), "C03.FORBID_two_argument_form_is_0_to_0");
    VCLAIM(3, LIM(cf2, 0, 0), "C03.FORBID_form_with_clauses_is_0_to_0");
    VCLAIM(7, LIM(cf1, 0, 0) && LIM(cf2, 0, 0) && cf1->is_satisfied() && cf1->is_saturated() && cf2->is_satisfied() && cf2->is_saturated(),
           "C07.every_forbid_spelling_is_satisfied_and_saturated");
    VCLAIM(7, nconds(*cf2) == 1 && nconds(*cf1) == 0, "C07.forbid_spelling_with_clauses_keeps_them");
    VCLAIM(4, LIM(ca1, 0, INF) && LIM(ca2, 0, INF), "C04.every_allow_spelling_has_no_lower_bound");
    VCLAIM(1, nconds(*ca2) == 1 && nconds(*ca1) == 0, "C01.allow_spelling_with_clauses_keeps_them");
    // behaviour: the forbid with a WITH clause shadows only what it matches
    VCLAIM(7, rejected(m, 6, wforb), "C07.forbid_with_clause_reports_what_it_matches");
    VCLAIM(7, rejected(m, 5, wforb), "C07.two_argument_forbid_reports");
    m.f(2);
    VCLAIM(7, vf_nreports == 2 && hits == 1, "C07.forbid_with_clause_lets_other_calls_through_to_older_expectations");
    m.f(1); m.f(1);
    VCLAIM(4, vf_nreports == 2, "C04.allow_accepts_any_number");
    VCLAIM(1, rejected(m, 7, wnom), "C01.unmatched_value_is_no_match");
    m.f(3); m.f(4); m.f(4);
    VCLAIM(3, vf_nreports == 3 && cr1->is_saturated() && cr2->is_satisfied() && !cr2->is_saturated(), "C03.counts_after_calls");
    (void)x;
  }
  // end of life: requirements met, allows and forbids silent
  VCLAIM(4, vf_nreports == 3, "C04.allow_and_forbid_spellings_never_report_at_end_of_life");
  verif_reach();
}
