// C15 K-mismatch: structure of the 'No match' report for VF_NA active and VF_NS saturated expectations on void f(int,int).
// VF_C0..VF_C3: outcome code per expectation, active ones first (oldest first), then saturated ones:
//   0 = _1 rejects   1 = _2 rejects   2 = both reject   3 = parameters fit, first WITH fails   4 = parameters fit, second WITH fails
//   5 = matches completely (saturated ones only: it would have taken the call)
// Outcomes steer control, so arguments and operands are concrete per shape (x=5, y=9; rejecting operands 6 / 10);
// what the solver adds here is memory safety and the token bookkeeping, not a value space (said so in the evidence).
#include "vfapi.h"
#ifndef VF_NA
#define VF_NA 2
#endif
#ifndef VF_NS
#define VF_NS 1
#endif
#ifndef VF_C0
#define VF_C0 3
#endif
#ifndef VF_C1
#define VF_C1 0
#endif
#ifndef VF_C2
#define VF_C2 0
#endif
#ifndef VF_C3
#define VF_C3 0
#endif
struct M
{
#line 100
  MAKE_MOCK2(f, void(int, int));
};
using CM = vf_cm_t<void(int, int), decltype(trompeloeil::eq(0)), decltype(trompeloeil::eq(0))>;
static unsigned vf_wevals;      // WITH clause evaluations (all expectations)
static bool wv(bool v) { ++vf_wevals; return v; }
static const int OCS[4] = {VF_C0, VF_C1, VF_C2, VF_C3};
static int digit(int i) { return OCS[i]; }

extern "C" void harness(void)
{
  M m;
  int x = 5, y = 9;
  int A[5], B[5]; bool w1[5], w2[5]; int oc[5];
  for (int i = 0; i < VF_NA + VF_NS; ++i)
  {
    oc[i] = digit(i);
    A[i] = (oc[i] == 0 || oc[i] == 2) ? (x ^ 1) : x;
    B[i] = (oc[i] == 1 || oc[i] == 2) ? (y ^ 1) : y;
    w1[i] = oc[i] != 3; w2[i] = oc[i] != 4;
  }
  std::unique_ptr<CM> e[5];
  int a, b; bool c1, c2;
#define MK(i, LINE) a = A[i]; b = B[i]; c1 = w1[i]; c2 = w2[i];
#line 200
  MK(0, 200) e[0] = NAMED_REQUIRE_CALL(m, f(trompeloeil::eq(a), trompeloeil::eq(b))).WITH(wv(c1) /*first0*/).WITH(wv(c2) /*second0*/);
#if VF_NA + VF_NS > 1
#line 210
  MK(1, 210) e[1] = NAMED_REQUIRE_CALL(m, f(trompeloeil::eq(a), trompeloeil::eq(b))).WITH(wv(c1) /*first1*/).WITH(wv(c2) /*second1*/);
#endif
#if VF_NA + VF_NS > 2
#line 220
  MK(2, 220) e[2] = NAMED_REQUIRE_CALL(m, f(trompeloeil::eq(a), trompeloeil::eq(b))).WITH(wv(c1) /*first2*/).WITH(wv(c2) /*second2*/);
#endif
#if VF_NA + VF_NS > 3
#line 230
  MK(3, 230) e[3] = NAMED_REQUIRE_CALL(m, f(trompeloeil::eq(a), trompeloeil::eq(b))).WITH(wv(c1) /*first3*/).WITH(wv(c2) /*second3*/);
#endif
#line 300
  const int NT = VF_NA + VF_NS;
  auto &sat = m.trompeloeil_l_expectations_100.saturated;
  // the last VF_NS expectations are saturated (count == max), in creation order in the saturated list
  for (int i = VF_NA; i < NT; ++i) { vf_poke(*e[i]->sequences, 1, 1, 1); e[i]->unlink(); sat.push_back(e[i].get()); }
  unsigned wloc[5];
  for (int i = 0; i < NT; ++i) wloc[i] = vf_watchn(200 + 10 * i);   // every expectation prints "... at file:LINE"; the line number identifies it
  unsigned wnomatch = vf_watch("No match for call of "), wtried = vf_watch("\nTried "),
           wsatreq = vf_watch("\nMatches saturated call requirement\n"), wfailed = vf_watch("\n  Failed WITH("),
           wexp = vf_watch("  Expected "), wparam = vf_watch("  param "), wfname = vf_watch("f");
  (void)wfname;

  // classify inside the reporter: this harness needs counts, so it installs its own recorder through vfapi's hooks
  vf_want_ord = true;
  bool threw = false;
  try { m.f(x, y); } catch (vf_reported &) { threw = true; }
  VCLAIM(15, threw && vf_nreports == 1 && vf_first.fatal, "C15.no_match_is_one_fatal_report");
  VCLAIM(15, vf_first.line == 0, "C15.no_match_report_has_no_single_location");
  unsigned mask = vf_first.mask, nmask = vf_first.nmask;
  VCLAIM(15, (mask >> wnomatch) & 1, "C15.no_match_header");
  VCLAIM(15, (mask >> wparam) & 1, "C15.no_match_prints_arguments");
  bool any_sat_match = false;
  for (int i = VF_NA; i < NT; ++i) if (oc[i] == 5) any_sat_match = true;
  if (any_sat_match)
  {
    VCLAIM(15, (mask >> wsatreq) & 1, "C15.saturated_match_section");
    VCLAIM(15, !((mask >> wtried) & 1), "C15.no_tried_section_when_saturated_matches");
    for (int i = 0; i < NT; ++i)
      VCLAIM(15, (((nmask >> wloc[i]) & 1) != 0) == (i >= VF_NA && oc[i] == 5), "C15.lists_exactly_matching_saturated_expectations");
    VCLAIM(3, (mask >> wsatreq) & 1, "C03.beyond_max_names_saturated_expectation");
    // the live expectations were NOT named in this report: their own end-of-life report is still due (C04)
    for (int i = 0; i < VF_NA; ++i) VCLAIM(4, !e[i]->reported, "C04.expectation_not_named_in_a_report_is_not_marked_reported");
  }
  else
  {
    VCLAIM(15, !((mask >> wsatreq) & 1), "C15.no_saturated_section_without_saturated_match");
    VCLAIM(15, vf_first_cnt[wtried] == (unsigned)VF_NA, "C15.one_tried_block_per_live_expectation");
    for (int i = 0; i < NT; ++i)
      VCLAIM(15, (((nmask >> wloc[i]) & 1) != 0) == (i < VF_NA), "C15.lists_every_live_expectation_and_no_saturated_one");
    unsigned nfail = 0, nexp = 0;
    for (int i = 0; i < VF_NA; ++i)
    {
      if (oc[i] == 3 || oc[i] == 4) ++nfail;
      if (oc[i] == 0 || oc[i] == 1) nexp += 1;
      if (oc[i] == 2) nexp += 2;
    }
    VCLAIM(15, vf_first_cnt[wfailed] == nfail, "C15.failed_with_shown_iff_parameters_fit");
    VCLAIM(15, vf_first_cnt[wexp] == nexp, "C15.expected_lines_for_exactly_the_rejecting_parameters");
    // newest first
    for (int i = 0; i < VF_NA; ++i)
      for (int j = i + 1; j < VF_NA; ++j)
        VCLAIM(15, (vf_first.nord & vf_ord(wloc[j], wloc[i])) != 0, "C15.live_expectations_listed_newest_first");
    // every live expectation is now marked as reported: no second report at end of life (C04)
    for (int i = 0; i < VF_NA; ++i) VCLAIM(4, e[i]->reported, "C04.listed_expectation_marked_reported");
  }
  for (int i = 0; i < NT; ++i) VCLAIM(1, e[i]->sequences->get_calls() == (i >= VF_NA ? 1u : 0u), "C01.no_match_changes_no_count");
  {
    // WITH clauses run in declaration order and stop at the first failure, also on the reporting pass:
    // find() asks every live expectation once; the report asks every saturated one once and, if none of those matches,
    // every live one a second time.  A clause list [c1, c2] costs 1 evaluation if c1 fails, else 2.
    auto cost = [&](int i) -> unsigned { return (oc[i] == 0 || oc[i] == 1 || oc[i] == 2) ? 0u : (oc[i] == 3 ? 1u : 2u); };
    unsigned want = 0;
    for (int i = 0; i < VF_NA; ++i) want += cost(i) * (any_sat_match ? 1u : 2u);
    for (int i = VF_NA; i < NT; ++i) want += cost(i);
    VCLAIM(8, vf_wevals == want, "C08.with_clauses_stop_at_first_failure_also_when_reporting");
  }
  {
    // a second rejected call is reported with the same detail as the first: every report is complete in itself
    unsigned m1 = vf_first.mask, n1 = vf_first.nmask; unsigned long o1 = vf_first.nord;
    bool threw2 = false;
    try { m.f(x, y); } catch (vf_reported &) { threw2 = true; }
    VCLAIM(15, threw2 && vf_nreports == 2 && vf_last.fatal, "C15.second_no_match_is_one_fatal_report");
    VCLAIM(15, vf_last.mask == m1 && vf_last.nmask == n1 && vf_last.nord == o1, "C15.second_report_on_the_same_expectations_carries_the_same_details");
    vf_nreports = 1; vf_nfatal = 1;
  }
  unsigned before = vf_nreports;
  for (int i = 0; i < NT; ++i) e[i].reset();
  if (!any_sat_match) VCLAIM(4, vf_nreports == before, "C04.no_second_report_after_no_match_listing");
  else VCLAIM(4, vf_nreports == before + VF_NA && vf_nfatal == 1, "C04.unfulfilled_expectations_not_named_earlier_report_once_each_at_release");
  verif_reach();
}
