// C12 schedules at critical-section granularity.  Thread B runs one API operation; thread A's operation is injected at
// a SOLVER-CHOSEN outermost acquisition of the global mutex by B (the point where B would block while A holds the lock):
// the model's pthread_mutex_lock (rt/rt.c, -DVF_SCHED) and the native interposer (rt/native.cpp) call verif_on_acquire()
// whenever the mutex is taken at depth 0.  at == k means "A runs when B is about to enter its k-th critical section";
// at >= (number of B's critical sections) means "A runs after B".  One preemption, A runs to completion (A's own
// critical sections are contiguous) -- the lock-discipline obligations of ops.cpp are what make acquisition points the
// only places where another thread can observe or change shared state.
// Obligations: the outcome (reports, return values, query results) is one that executing A and B one at a time can
// produce (with the construction exception the property states), no access to freed memory (CBMC pointer checks; ASan
// natively), lock balanced, and the bound on acquisition points is not exceeded.
#include "vfapi.h"
#ifndef VF_SC
#define VF_SC 1
#endif
#ifndef VF_KMAX
#define VF_KMAX 8
#endif
struct T { virtual ~T() {} };
struct M
{
#line 100
  MAKE_MOCK1(f, int(int));
};

static unsigned g_at, g_acq;
static bool g_inB, g_inA, g_done;
static void thread_A();
extern "C" void verif_on_acquire(void)
{
  if (!g_inB || g_inA) return;                        // only B's outermost acquisitions are schedule points
  if (g_acq++ == g_at && !g_done) { g_done = true; g_inA = true; thread_A(); g_inA = false; }
}
#define B_BEGIN() do { g_acq = 0; g_inB = true; } while (0)
#define B_END() do { g_inB = false; if (!g_done) { g_done = true; thread_A(); } } while (0)

// ---- shared objects (reachable from both threads)
static trompeloeil::sequence *gs;
static M *gm;
static trompeloeil::deathwatched<T> *gobj;
static trompeloeil::expectation *ge0, *ge1;
static trompeloeil::lifetime_monitor *gr;
typedef unsigned snap;                                 // bit 0: sequence completed; bits 1,2: e0 satisfied, saturated; bits 3,4: e1
static snap obs;
static bool a_accepted; static int a_ret;
static bool eq(snap a, snap b) { return a == b; }
#define SN_C 1u
#define SN_S0 2u
#define SN_T0 4u
#define SN_S1 8u
#define SN_T1 16u
static snap take()
{
  snap r = 0;
  if (gs->is_completed()) r |= SN_C;
  if (ge0) { if (ge0->is_satisfied()) r |= SN_S0; if (ge0->is_saturated()) r |= SN_T0; }
  if (ge1) { if (ge1->is_satisfied()) r |= SN_S1; if (ge1->is_saturated()) r |= SN_T1; }
  return r;
}

static void thread_A()
{
#if VF_SC == 1 || VF_SC == 7
  delete gobj; gobj = nullptr;                        // the watched object dies on the other thread
#elif VF_SC == 2 || VF_SC == 3 || VF_SC == 5 || VF_SC == 6 || VF_SC == 8
  obs = take();                                       // queries on the other thread
#elif VF_SC == 4 || VF_SC == 9
  try { a_ret = gm->f(VF_SC == 4 ? 0 : 1); a_accepted = true; } catch (vf_reported &) { a_accepted = false; }
#endif
}

extern "C" void harness(void)
{
#ifdef VF_AT
  g_at = VF_AT;                                        // heavy thread-A operations: the injection point is a shape (one copy of A per query)
  (void)verif_nondet_uint();
#else
  g_at = verif_nondet_uint();
  verif_assume(g_at <= VF_KMAX);
#endif
  { auto l = trompeloeil::get_lock(); }                // the mutex exists before anything symbolic happens
  trompeloeil::sequence s; gs = &s;
  gm = new M;
  unsigned wunf = vf_needle("Unfulfilled expectation"), walive = vf_needle(" is still alive"), wnom = vf_needle("No match for call of "), wunx = vf_needle("Unexpected destruction of ");
  (void)wunf; (void)walive; (void)wnom; (void)wunx;
  {
#if VF_SC == 1
  // B releases a destruction requirement while A destroys the object.  A;B: silent.  B;A: one "still alive", then silent.
  gobj = new trompeloeil::deathwatched<T>;
  auto r = NAMED_REQUIRE_DESTRUCTION(*gobj);
  B_BEGIN(); r.reset(); B_END();
  VCLAIM(12, vf_nfatal == 0 && (vf_nreports == 0 || (vf_nreports == 2 && (vf_first.mask & walive) && (vf_last.mask & wunx))),
         "C12.release_vs_destruction_outcome_is_one_of_the_two_orders");
#elif VF_SC == 7
  // B releases a SEQUENCED destruction requirement (unlinks from the sequence) while A destroys the object.
  gobj = new trompeloeil::deathwatched<T>;
  auto e0 = NAMED_ALLOW_CALL(*gm, f(0)).IN_SEQUENCE(s).RETURN(1);
  auto r = NAMED_REQUIRE_DESTRUCTION(*gobj).IN_SEQUENCE(s);
  auto e2 = NAMED_ALLOW_CALL(*gm, f(2)).IN_SEQUENCE(s).RETURN(1);
  B_BEGIN(); r.reset(); B_END();
  VCLAIM(12, vf_nfatal == 0 && (vf_nreports == 0 || (vf_nreports == 2 && (vf_first.mask & walive) && (vf_last.mask & wunx))),
         "C12.release_vs_destruction_outcome_is_one_of_the_two_orders");
  VCLAIM(12, s.is_completed(), "C12.sequence_completed_after_both");
#elif VF_SC == 2
  // B builds an expectation with its bounds BEFORE IN_SEQUENCE: it enters the sequence once, with those bounds.
  snap pre = take();
  B_BEGIN();
  auto e = NAMED_REQUIRE_CALL(*gm, f(0)).TIMES(AT_MOST(5)).IN_SEQUENCE(s).RETURN(1);
  B_END();
  VCLAIM(12, (pre & SN_C) && (obs & SN_C) && s.is_completed(), "C12.optional_expectation_never_makes_the_sequence_incomplete_while_under_construction");
#elif VF_SC == 3
  // same with run-time bounds
  size_t lo = 0, hi = 4;
  B_BEGIN();
  auto e = NAMED_REQUIRE_CALL(*gm, f(0)).RT_TIMES(lo, hi).IN_SEQUENCE(s).RETURN(1);
  B_END();
  VCLAIM(12, (obs & SN_C) && s.is_completed(), "C12.optional_expectation_never_makes_the_sequence_incomplete_while_under_construction");
#elif VF_SC == 5
  // B makes an accepted sequenced call; A's queries see the state before or after it, never a mixture.
  auto e0 = NAMED_REQUIRE_CALL(*gm, f(0)).IN_SEQUENCE(s).RETURN(1);
  auto e1 = NAMED_REQUIRE_CALL(*gm, f(1)).IN_SEQUENCE(s).TIMES(0, 1).RETURN(2);
  ge0 = e0.get(); ge1 = e1.get();
  snap pre = take();
  B_BEGIN(); int r = gm->f(0); B_END();
  snap post = take();
  VCLAIM(12, r == 1 && vf_nreports == 0, "C12.call_accepted");
  VCLAIM(12, eq(obs, pre) || eq(obs, post), "C12.queries_see_the_state_before_or_after_a_call");
  VCLAIM(12, !(pre & SN_C) && (post & SN_C) && !(pre & SN_S0) && (post & SN_S0) && (post & SN_T0), "C12.setup");
#elif VF_SC == 6
  // B's call retires a satisfied predecessor and saturates its own expectation: still one step for an observer.
  auto e0 = NAMED_REQUIRE_CALL(*gm, f(0)).IN_SEQUENCE(s).TIMES(0, 2).RETURN(1);
  auto e1 = NAMED_REQUIRE_CALL(*gm, f(1)).IN_SEQUENCE(s).RETURN(2);
  ge0 = e0.get(); ge1 = e1.get();
  snap pre = take();
  B_BEGIN(); int r = gm->f(1); B_END();
  snap post = take();
  VCLAIM(12, r == 2 && vf_nreports == 0, "C12.call_accepted");
  VCLAIM(12, eq(obs, pre) || eq(obs, post), "C12.queries_see_the_state_before_or_after_a_call");
#elif VF_SC == 8
  // B destroys the mock while a sequenced NAMED expectation is unfulfilled (report + detach): observer sees before or after.
  auto e0 = NAMED_REQUIRE_CALL(*gm, f(0)).IN_SEQUENCE(s).RETURN(1);
  ge0 = e0.get();
  snap pre = take();
  B_BEGIN(); delete gm; gm = nullptr; B_END();
  snap post = take();
  VCLAIM(12, vf_nreports == 1 && vf_nfatal == 0, "C12.pending_expectation_reported_once");
  VCLAIM(12, eq(obs, pre) || eq(obs, post), "C12.queries_see_the_state_before_or_after_mock_destruction");
#elif VF_SC == 4
  // B releases an unfulfilled expectation while A makes the call it is waiting for.
  // A;B: accepted, silent.  B;A: one non-fatal "Unfulfilled", then one fatal "No match".
  auto e = NAMED_REQUIRE_CALL(*gm, f(0)).RETURN(7);
  B_BEGIN(); e.reset(); B_END();
  VCLAIM(12, (a_accepted && a_ret == 7 && vf_nreports == 0) ||
             (!a_accepted && vf_nreports == 2 && vf_nfatal == 1 && !vf_first.fatal && (vf_first.mask & wunf) && vf_last.fatal && (vf_last.mask & wnom)),
         "C12.release_vs_call_outcome_is_one_of_the_two_orders");
#elif VF_SC == 9
  // B's call f(0) and A's call f(1) on consecutive steps of one sequence.
  // B;A: both accepted.  A;B: f(1) is out of sequence (one fatal report), f(0) accepted.
  auto e0 = NAMED_REQUIRE_CALL(*gm, f(0)).IN_SEQUENCE(s).RETURN(1);
  auto e1 = NAMED_REQUIRE_CALL(*gm, f(1)).IN_SEQUENCE(s).RETURN(2);
  B_BEGIN(); int r = gm->f(0); B_END();
  VCLAIM(12, r == 1, "C12.call_accepted");
  VCLAIM(12, (a_accepted && a_ret == 2 && vf_nreports == 0 && s.is_completed()) ||
             (!a_accepted && vf_nreports == 1 && vf_nfatal == 1 && !s.is_completed() && e0->is_satisfied() && !e1->is_satisfied()),
         "C12.two_sequenced_calls_outcome_is_one_of_the_two_orders");
#endif
#ifdef VERIF_NATIVE
  if (getenv("VF_DEBUG")) printf("at=%u acq=%u nrep=%u nfatal=%u\n", g_at, g_acq, vf_nreports, vf_nfatal);
#endif
  VCLAIM(12, g_done, "C12.thread_A_ran");
  ge0 = ge1 = nullptr;
  }                                                    // expectations and requirements are released here
  VCLAIM(12, g_acq <= VF_KMAX, "C12.schedule_bound_covers_every_acquisition_point");
  VCLAIM(12, verif_lock_depth() == 0, "C12.lock_released");
  delete gobj; gobj = nullptr;
  delete gm; gm = nullptr;
  verif_reach();
}
