// C12 lock discipline, one API operation per shape (VF_OP).  The IR is instrumented (vf/lockinst.py): every function that
// touches state shared between threads asserts that the global recursive mutex is held.  Obligations here: the lock is
// balanced (depth 0 before and after every operation, also on the exceptional path); the instrumented obligations fire
// inside the library code.
#include "vfapi.h"
#ifndef VF_OP
#define VF_OP 1
#endif
struct T { virtual ~T() {} };
struct M
{
#line 100
  MAKE_MOCK1(f, int(int));
};
#define BAL(id) VCLAIM(12, verif_lock_depth() == 0, id)
extern "C" void harness(void)
{
  int x = (int)verif_nondet_uint();
  size_t lo = 1, hi = 3;   // bounds steer control in RT_TIMES (inverted bounds throw): concrete here, C03 owns the value space
  { auto l = trompeloeil::get_lock(); }   // designates the global mutex for the model (rt.c) and initialises it on a concrete path
  BAL("C12.lock_free_initially");
  {
    trompeloeil::sequence s;
    M m;
#if VF_OP == 1        /* accepted unsequenced call */
    auto e = NAMED_REQUIRE_CALL(m, f(ANY(int))).RETURN(1);
    BAL("C12.lock_released_after_creation");
    m.f(x);
    BAL("C12.lock_released_after_accepted_call");
#elif VF_OP == 2      /* rejected call: the reporter throws through mock_func */
    bool t = false; try { m.f(x); } catch (vf_reported &) { t = true; }
    VCLAIM(12, t, "C12.rejected");
    BAL("C12.lock_released_after_rejected_call");
#elif VF_OP == 3      /* accepted sequenced calls: retire predecessors, saturate */
    auto e0 = NAMED_REQUIRE_CALL(m, f(0)).IN_SEQUENCE(s).TIMES(0, 2).RETURN(1);
    auto e1 = NAMED_REQUIRE_CALL(m, f(1)).IN_SEQUENCE(s).RETURN(1);
    m.f(0); m.f(1);
    BAL("C12.lock_released_after_sequenced_calls");
#elif VF_OP == 4      /* IN_SEQUENCE first, bounds afterwards: the handle is already visible in the sequence */
    auto e0 = NAMED_REQUIRE_CALL(m, f(0)).IN_SEQUENCE(s).RT_TIMES(lo, hi).RETURN(1);
    BAL("C12.lock_released_after_creation");
    vf_poke(*e0->sequences, 0, 1, 0);
#elif VF_OP == 5      /* compile-time TIMES after IN_SEQUENCE */
    auto e0 = NAMED_REQUIRE_CALL(m, f(0)).IN_SEQUENCE(s).TIMES(0, 3).RETURN(1);
    BAL("C12.lock_released_after_creation");
#elif VF_OP == 6      /* bounds first, then IN_SEQUENCE */
    auto e0 = NAMED_REQUIRE_CALL(m, f(0)).RT_TIMES(lo, hi).IN_SEQUENCE(s).RETURN(1);
    BAL("C12.lock_released_after_creation");
    vf_poke(*e0->sequences, 0, 1, 0);
#elif VF_OP == 7      /* release of an unsequenced expectation */
    { auto e = NAMED_ALLOW_CALL(m, f(ANY(int))).RETURN(1); }
    BAL("C12.lock_released_after_release");
#elif VF_OP == 8      /* release of a sequenced expectation while others are registered before and after it */
    auto e0 = NAMED_ALLOW_CALL(m, f(0)).IN_SEQUENCE(s).RETURN(1);
    { auto e1 = NAMED_ALLOW_CALL(m, f(1)).IN_SEQUENCE(s).RETURN(1);
      auto e2 = NAMED_ALLOW_CALL(m, f(2)).IN_SEQUENCE(s).RETURN(1);
      e1.reset();
      BAL("C12.lock_released_after_sequenced_release"); }
#elif VF_OP == 9      /* queries */
    auto e = NAMED_ALLOW_CALL(m, f(ANY(int))).IN_SEQUENCE(s).RETURN(1);
    bool a = e->is_satisfied(), b = e->is_saturated();
    VCLAIM(12, a && !b, "C12.query_values");
    BAL("C12.lock_released_after_query");
#elif VF_OP == 10     /* sequence::is_completed while expectations are registered */
    auto e = NAMED_REQUIRE_CALL(m, f(ANY(int))).IN_SEQUENCE(s).RETURN(1);
    bool c = s.is_completed();
    VCLAIM(12, !c, "C12.is_completed_value");
    BAL("C12.lock_released_after_is_completed");
    m.f(x);
#elif VF_OP == 11     /* REQUIRE_DESTRUCTION created and released while the object lives */
    auto *obj = new trompeloeil::deathwatched<T>;
    { auto r = NAMED_REQUIRE_DESTRUCTION(*obj); BAL("C12.lock_released_after_requirement_creation");
      bool qa = r->is_satisfied(), qb = r->is_saturated();      // lock-free queries: legal only because the flag is atomic
      VCLAIM(12, !qa && !qb, "C12.requirement_query_values");
      BAL("C12.lock_released_after_requirement_query"); }
    BAL("C12.lock_released_after_requirement_release");
    delete obj;
    BAL("C12.lock_released_after_unexpected_destruction");
#elif VF_OP == 12     /* sequenced monitor: destruction notifies, then the requirement is released */
    auto *obj = new trompeloeil::deathwatched<T>;
    auto e0 = NAMED_ALLOW_CALL(m, f(0)).IN_SEQUENCE(s).RETURN(1);
    { auto r = NAMED_REQUIRE_DESTRUCTION(*obj).IN_SEQUENCE(s);
      auto e2 = NAMED_ALLOW_CALL(m, f(2)).IN_SEQUENCE(s).RETURN(1);
      delete obj;
      BAL("C12.lock_released_after_watched_destruction");
      r.reset();
      BAL("C12.lock_released_after_requirement_release"); }
#elif VF_OP == 13     /* mock destroyed while a named expectation lives */
    auto *pm = new M;
    auto e = NAMED_ALLOW_CALL(*pm, f(ANY(int))).RETURN(1);
    delete pm;
    BAL("C12.lock_released_after_mock_destruction");
#elif VF_OP == 14     /* a SEQUENCED expectation outlives its mock and is released afterwards, other handles still in the sequence */
    auto *pm = new M;
    auto e0 = NAMED_ALLOW_CALL(m, f(0)).IN_SEQUENCE(s).RETURN(1);
    { auto e1 = NAMED_REQUIRE_CALL(*pm, f(1)).IN_SEQUENCE(s).TIMES(AT_LEAST(0)).RETURN(1);
      auto e2 = NAMED_ALLOW_CALL(m, f(2)).IN_SEQUENCE(s).RETURN(1);
      delete pm;
      BAL("C12.lock_released_after_mock_destruction");
      e1.reset();
      BAL("C12.lock_released_after_release_of_orphaned_expectation"); }
#endif
  }
  BAL("C12.lock_released_after_teardown");
  verif_reach();
}
