// C10 on double: the ordering matchers agree with the built-in operators for EVERY pair of bit patterns, including the
// unordered ones (NaN on either side), infinities, signed zeros and denormals; also under ! and all_of / any_of.
#include "verif.h"
#include <trompeloeil.hpp>
#include <cstring>
extern "C" void harness(void)
{
  unsigned long bx = verif_nondet_ulong(), bv = verif_nondet_ulong();
  double x, v;
  std::memcpy(&x, &bx, sizeof x); std::memcpy(&v, &bv, sizeof v);
  using namespace trompeloeil;
  VASSERT(param_matches(le(v), std::ref(x)) == (x <= v), "C10.le_double_agrees_with_operator_for_every_bit_pattern");
  VASSERT(param_matches(ge(v), std::ref(x)) == (x >= v), "C10.ge_double_agrees_with_operator_for_every_bit_pattern");
  VASSERT(param_matches(lt(v), std::ref(x)) == (x < v), "C10.lt_double_agrees_with_operator_for_every_bit_pattern");
  VASSERT(param_matches(gt(v), std::ref(x)) == (x > v), "C10.gt_double_agrees_with_operator_for_every_bit_pattern");
  VASSERT(param_matches(eq(v), std::ref(x)) == (x == v), "C10.eq_double_agrees_with_operator_for_every_bit_pattern");
  VASSERT(param_matches(ne(v), std::ref(x)) == (x != v), "C10.ne_double_agrees_with_operator_for_every_bit_pattern");
  VASSERT(param_matches(!le(v), std::ref(x)) == !(x <= v), "C10.not_le_double");
  VASSERT(param_matches(all_of(ge(v), le(v)), std::ref(x)) == (x >= v && x <= v), "C10.all_of_ge_le_double");
  VASSERT(param_matches(any_of(lt(v), gt(v)), std::ref(x)) == (x < v || x > v), "C10.any_of_lt_gt_double");
  VASSERT(param_matches(le<double>(v), std::ref(x)) == (x <= v), "C10.typed_le_double");
  verif_reach();
}
