// C10 re(): the null guard and end-pointer computation of regex_check / string_helper, with the regular-expression engine
// (libstdc++ std::regex, outside the claim) replaced by an arbitrary verdict: std::regex_search returns a nondeterministic bool.
// Expected: re(...) accepts iff the subject is non-null AND the engine finds the expression; an EMPTY subject is not null.
#include "verif.h"
#include <trompeloeil.hpp>
#include <regex>
// a string-view-like subject: data() / length(), no terminating NUL at its end
struct view
{
  char const *p; size_t n;
  char const *data() const { return p; }
  size_t length() const { return n; }
};
extern "C" void harness(void)
{
  static char const empty[] = "", one[] = "a", three[] = "abc";
  unsigned which = verif_nondet_uchar() % 4;
  char const *subj = which == 0 ? nullptr : which == 1 ? empty : which == 2 ? one : three;
  auto m = trompeloeil::re("x*");
  bool got = trompeloeil::param_matches(m, std::ref(subj));
#ifdef VERIF_SYMBOLIC
  bool engine = verif_last_regex_verdict() != 0;      // what the stubbed std::regex_search answered (0 if it was not asked)
  bool asked = verif_regex_asked() != 0;
  VASSERT(asked == (subj != nullptr), "C10.re_engine_consulted_iff_subject_non_null");
  if (asked) VASSERT(verif_regex_len() == (which == 1 ? 0u : which == 2 ? 1u : 3u), "C10.re_subject_range_is_begin_plus_strlen");
#else
  bool engine = true;                                 // natively the real engine runs: "x*" is found in every string, also the empty one
#endif
  VASSERT(got == (subj != nullptr && engine), "C10.re_accepts_iff_non_null_and_found");
  bool ngot = trompeloeil::param_matches(!trompeloeil::re("x*"), std::ref(subj));
#ifdef VERIF_SYMBOLIC
  bool engine2 = verif_last_regex_verdict() != 0;
#else
  bool engine2 = true;
#endif
  VASSERT(ngot == !(subj != nullptr && engine2), "C10.not_re");
  {
    // the searched range is exactly [data(), data() + length()): nothing beyond it is looked at, nothing inside it is skipped
    static char const text[] = "hello world";
    size_t k = verif_nondet_uchar() % 12;                // any prefix of the text, including all of it and none of it
    view vw{text, k};
    bool vgot = trompeloeil::param_matches(trompeloeil::re("world"), std::ref(vw));
#ifdef VERIF_SYMBOLIC
    bool vengine = verif_last_regex_verdict() != 0;
    VASSERT(verif_regex_asked() != 0 && verif_regex_len() == k, "C10.re_subject_range_is_data_plus_length");
    VASSERT(vgot == vengine, "C10.re_view_accepts_iff_found_in_its_own_range");
#else
    VASSERT(vgot == (k == 11), "C10.re_view_accepts_iff_found_in_its_own_range");   // "world" lies in the range only when it is the whole text
#endif
  }
  verif_reach();
}
