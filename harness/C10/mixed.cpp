// C10, plain values as operands whose arithmetic type differs from the parameter's: the verdict is that of the built-in
// `x == v` (usual arithmetic conversions on BOTH sides), never that of a comparison after narrowing v to the parameter type.
// All 32-bit x, all 64-bit v (integer and double bit patterns), bool parameter with int operand, under any_of / none_of /
// all_of / ! and MEMBER_IS.
#include "verif.h"
#include <trompeloeil.hpp>
#include <cstring>
struct S { int n; };
extern "C" void harness(void)
{
  using namespace trompeloeil;
  int x = (int)verif_nondet_uint();
  long long v = (long long)verif_nondet_ulong();
  unsigned long bd = verif_nondet_ulong();
  double d; std::memcpy(&d, &bd, sizeof d);
  bool b = (verif_nondet_uchar() & 1) != 0;
  int iv = (int)verif_nondet_uint();
  unsigned u = verif_nondet_uint();
  VASSERT(param_matches(v, std::ref(x)) == (x == v), "C10.plain_long_long_operand_int_parameter");
  VASSERT(param_matches(any_of(v), std::ref(x)) == (x == v), "C10.any_of_plain_long_long_operand_int_parameter");
  VASSERT(param_matches(none_of(v), std::ref(x)) == !(x == v), "C10.none_of_plain_long_long_operand_int_parameter");
  VASSERT(param_matches(!any_of(v, iv), std::ref(x)) == !(x == v || x == iv), "C10.not_any_of_mixed_operands");
  VASSERT(param_matches(all_of(v, ge(iv)), std::ref(x)) == (x == v && x >= iv), "C10.all_of_plain_and_matcher_mixed");
  VASSERT(param_matches(iv, std::ref(b)) == (b == iv), "C10.plain_int_operand_bool_parameter");
  VASSERT(param_matches(any_of(iv), std::ref(b)) == (b == iv), "C10.any_of_plain_int_operand_bool_parameter");
  VASSERT(param_matches(v, std::ref(u)) == (u == v), "C10.plain_long_long_operand_unsigned_parameter");
  VASSERT(param_matches(d, std::ref(x)) == (x == d), "C10.plain_double_operand_int_parameter");
  VASSERT(param_matches(any_of(d), std::ref(x)) == (x == d), "C10.any_of_plain_double_operand_int_parameter");
  { S s{x};
    VASSERT(param_matches(TROMPELOEIL_MEMBER_IS(&S::n, v), std::ref(s)) == (x == v), "C10.member_is_plain_long_long_operand");
  }
  verif_reach();
}
