// C14 K-list: the intrusive list primitives on a ring of VF_N nodes plus head, one operation at position VF_POS.
// Units: list_elem move ctor / move assignment / dtor / unlink / is_linked, list::push_front/push_back/begin/end/~list,
//        list move ctor (splice of a whole list, as used by movable mocks).
// The ring invariant is the predicate set of TROMPELOEIL_SANITY_CHECKS' invariant_check(), restated; pointer checks on.
#include "verif.h"
#include <trompeloeil.hpp>
#ifndef VF_N
#define VF_N 3
#endif
#ifndef VF_OP
#define VF_OP 0
#endif
#ifndef VF_POS
#define VF_POS 0
#endif
struct node : trompeloeil::list_elem<node>
{
  node() = default;
  node(node &&r) noexcept : trompeloeil::list_elem<node>(std::move(r)), id(r.id) {}
  node &operator=(node &&r) noexcept { trompeloeil::list_elem<node>::operator=(std::move(r)); id = r.id; return *this; }
  int id = -1;
};
using L = trompeloeil::list<node>;

// checks that `l` holds exactly want[0..n) (by id) in order and that the ring is consistent in both directions
static void check_ring(L &l, const int *want, int n, char const *)
{
  trompeloeil::list_elem<node> *head = &(trompeloeil::list_elem<node> &)l;   // private base: C-style cast
  trompeloeil::list_elem<node> *p = head->next;
  int i = 0;
  bool ok = true;
  for (; i <= VF_N + 1 && p != head; ++i, p = p->next)
  {
    if (i >= n || static_cast<node *>(p)->id != want[i]) ok = false;
    if (p->next->prev != p || p->prev->next != p) ok = false;
  }
  VASSERT(ok && i == n && p == head, "C14.list_order_and_links");
  VASSERT(head->next->prev == head && head->prev->next == head, "C14.list_head_links");
  VASSERT(l.empty() == (n == 0), "C14.list_empty");
}

extern "C" void harness(void)
{
  node nd[5];
  int order[6]; int n = 0;
  {
    L l;
    for (int i = 0; i < VF_N; ++i) { nd[i].id = verif_nondet_uint() & 0xffff; l.push_back(&nd[i]); order[n++] = nd[i].id; }
    check_ring(l, order, n, "built");
#if VF_OP == 0        /* push_front of a fresh node */
    node x; x.id = 70000; l.push_front(&x);
    for (int i = n; i > 0; --i) order[i] = order[i - 1];
    order[0] = 70000; ++n;
    check_ring(l, order, n, "push_front");
    VASSERT(x.is_linked(), "C14.pushed_is_linked");
    x.unlink();
    VASSERT(!x.is_linked(), "C14.unlinked_not_linked");
    for (int i = 0; i + 1 < n; ++i) order[i] = order[i + 1];
    --n;
    check_ring(l, order, n, "unlink_front");
#elif VF_OP == 1      /* unlink at VF_POS */
    nd[VF_POS].unlink();
    VASSERT(!nd[VF_POS].is_linked() && nd[VF_POS].next == &nd[VF_POS] && nd[VF_POS].prev == &nd[VF_POS], "C14.unlinked_self_loop");
    for (int i = VF_POS; i + 1 < n; ++i) order[i] = order[i + 1];
    --n;
    check_ring(l, order, n, "unlink");
    nd[VF_POS].unlink();                         // unlinking an unlinked element is a no-op
    check_ring(l, order, n, "unlink_twice");
#elif VF_OP == 2      /* move-construct a new element from the one at VF_POS: the new one takes its place */
    {
      node y(std::move(nd[VF_POS]));
      VASSERT(!nd[VF_POS].is_linked(), "C14.moved_from_is_unlinked");
      VASSERT(y.is_linked(), "C14.moved_to_is_linked");
      check_ring(l, order, n, "move_ctor");      // same ids (id copied), same order
      VASSERT(&*l.begin() == (VF_POS == 0 ? &y : &nd[0]), "C14.moved_to_takes_position");
    }                                            // y destroyed: leaves the list
    for (int i = VF_POS; i + 1 < n; ++i) order[i] = order[i + 1];
    --n;
    check_ring(l, order, n, "move_ctor_then_dtor");
#elif VF_OP == 3      /* move-assign onto an UNLINKED element */
    {
      node y; y.id = 1;
      y = std::move(nd[VF_POS]);
      VASSERT(!nd[VF_POS].is_linked() && y.is_linked(), "C14.move_assign_links_target");
      check_ring(l, order, n, "move_assign");
      y = std::move(y);                          // self move-assignment is a no-op
      check_ring(l, order, n, "self_move_assign");
    }
    for (int i = VF_POS; i + 1 < n; ++i) order[i] = order[i + 1];
    --n;
    check_ring(l, order, n, "move_assign_then_dtor");
#elif VF_OP == 4      /* move the whole list (movable mock): elements follow, source is empty and destructible */
    {
      L l2(std::move(l));
      check_ring(l2, order, n, "list_move_target");
      int none[1];
      check_ring(l, none, 0, "list_move_source_empty");
      for (int i = 0; i < VF_N; ++i) nd[i].unlink();
      check_ring(l2, none, 0, "list_move_drained");
    }
    n = 0;
#elif VF_OP == 5      /* element destroyed while linked (scope exit of an expectation) */
    {
      node y; y.id = 70001;
      l.push_back(&y);
      order[n++] = 70001;
      check_ring(l, order, n, "push_back");
    }
    --n;
    check_ring(l, order, n, "dtor_unlinks");
#endif
    for (int i = 0; i < VF_N; ++i) nd[i].unlink();   // ignore_disposer aborts on a non-empty list: drain first
  }
  verif_reach();
}
