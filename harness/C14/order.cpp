// C14 P-order: a small mixed population destroyed in every order (shape = permutation VF_P1..VF_P5 of the object ids),
// with probes on the survivors after every step.  Obligations: CBMC pointer checks on every dereference of the IR-derived
// code (nothing touches freed / dead memory, no double free), and no fatal report out of a destructor.
//   1 = the mock object (heap)          2 = e1: NAMED expectation f(0), unsequenced
//   3 = e2: NAMED expectation f(1) IN_SEQUENCE(s)      4 = the sequence object s (heap)      5 = a tracer (heap)
// Probes: a call f(0) (matches e1 only, so e2's sequence is not consulted: the "call after its sequence died" case is the
// recorded known finding of seqgone_0 and deliberately not re-triggered here), queries on e1 / e2, is_completed on s.
#include "vfapi.h"
#ifndef VF_P1
#define VF_P1 1
#define VF_P2 2
#define VF_P3 3
#define VF_P4 4
#define VF_P5 5
#endif
struct M
{
#line 100
  MAKE_MOCK1(f, int(int));
};
struct quiet_tracer : trompeloeil::tracer
{
  unsigned n = 0;
  void trace(char const *, unsigned long, std::string const &) override { ++n; }
};
static M *m; static std::unique_ptr<trompeloeil::expectation> e1, e2; static trompeloeil::sequence *s; static quiet_tracer *t;
static int x;
static void probe()
{
  if (m) { try { m->f(0); } catch (vf_reported &) {} }
  if (e1) { bool a = e1->is_satisfied(), b = e1->is_saturated(); (void)a; (void)b; }
  if (e2) { bool a = e2->is_satisfied(), b = e2->is_saturated(); (void)a; (void)b; }
  if (s) { bool c = s->is_completed(); (void)c; }
  VCLAIM(14, vf_nfatal <= vf_nreports, "C14.bookkeeping");
}
static void kill(int id)
{
  unsigned fatal_before = vf_nfatal;
  switch (id)
  {
  case 1: delete m; m = nullptr; break;
  case 2: e1.reset(); break;
  case 3: e2.reset(); break;
  case 4: delete s; s = nullptr; break;
  case 5: delete t; t = nullptr; break;
  }
  VCLAIM(14, vf_nfatal == fatal_before, "C14.no_fatal_report_from_a_destructor");
  VCLAIM(15, vf_nfatal == fatal_before, "C15.no_fatal_report_from_a_destructor");
  probe();
}
extern "C" void harness(void)
{
  x = (int)verif_nondet_uint();
  m = new M; s = new trompeloeil::sequence; t = new quiet_tracer;
#line 200
  e1 = NAMED_REQUIRE_CALL(*m, f(0)).TIMES(AT_LEAST(1)).RETURN(x);
#line 210
  e2 = NAMED_REQUIRE_CALL(*m, f(1)).IN_SEQUENCE(*s).RETURN(x);
#line 300
  probe();
  kill(VF_P1); kill(VF_P2); kill(VF_P3); kill(VF_P4); kill(VF_P5);
  VCLAIM(14, trompeloeil::tracer_obj() == nullptr, "C14.tracer_unregistered");
  verif_reach();
}
