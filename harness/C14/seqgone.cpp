// C14: a sequence object destroyed while expectations registered in it live on; the survivors are then called,
// queried and released.  VF_V 0: call the survivor   1: only query and release it   2: two survivors, release in creation order
// Expected (C06): the sequence's destruction reports once, non-fatally.  Expected (C14): nothing afterwards touches the
// freed sequence object.
#include "vfapi.h"
#ifndef VF_V
#define VF_V 0
#endif
struct M
{
#line 100
  MAKE_MOCK1(f, int(int));
};
extern "C" void harness(void)
{
  M m;
  int x = (int)verif_nondet_uint();
  auto s = trompeloeil::detail::make_unique<trompeloeil::sequence>();
#line 200
  auto e0 = NAMED_REQUIRE_CALL(m, f(0)).IN_SEQUENCE(*s).RETURN(1);
#if VF_V == 2
#line 210
  auto e1 = NAMED_REQUIRE_CALL(m, f(1)).IN_SEQUENCE(*s).RETURN(1);
#endif
#line 300
  s.reset();
  VCLAIM(14, vf_nreports == 1 && !vf_last.fatal, "C14.sequence_teardown_reported_once_nonfatal");
#if VF_V == 0
  bool t = false;
  try { m.f(0); } catch (vf_reported &) { t = true; }
  // the call is out of sequence (its sequence is gone): a fatal sequence report, or acceptance -- either way no freed memory
  VCLAIM(14, t || vf_nreports == 1, "C14.survivor_call_outcome");
#endif
  bool sat = e0->is_satisfied();
  (void)sat;
  vf_poke(*e0->sequences, 0, 1, e0->sequences->get_calls());
  e0.reset();
#if VF_V == 2
  vf_poke(*e1->sequences, 0, 1, 0);
  e1.reset();
#endif
  (void)x;
  verif_reach();
}
