// C17 P-trace: nestings of tracer lifetimes interleaved with accepted calls of four kinds, as straight-line shapes.
// VF_O1..VF_O6 op codes: 1 = construct tracer (nests inside the live ones)   3 = destroy the innermost tracer
//   4 = call int f(int) (returns a value)   5 = call void g(int)   6 = call that throws std::logic_error("boom")   7 = call that throws int
//   9 = call void w(int) whose SIDE_EFFECT throws std::logic_error("boom") (the exception does not come from THROW)
//   2 = call std::unique_ptr<int> q(int) returning a non-null move-only value: the traced value is the one returned (not a moved-from one)
//   8 = call int r(int) whose side effect calls f (a nested mock call): two records, inner first, both to the innermost tracer
// Reference: a stack of tracers; every accepted call delivers exactly one record to the top of the stack (none if empty).
#include "vfapi.h"
#include <stdexcept>
#ifndef VF_O1
#define VF_O1 1
#endif
#ifndef VF_O2
#define VF_O2 4
#endif
#ifndef VF_O3
#define VF_O3 0
#endif
#ifndef VF_O4
#define VF_O4 0
#endif
#ifndef VF_O5
#define VF_O5 0
#endif
#ifndef VF_O6
#define VF_O6 0
#endif
struct M
{
#line 100
  MAKE_MOCK1(f, int(int));
#line 110
  MAKE_MOCK1(g, void(int));
#line 120
  MAKE_MOCK1(t, int(int));
#line 130
  MAKE_MOCK1(u, void(int));
#line 140
  MAKE_MOCK1(r, int(int));
#line 150
  MAKE_MOCK1(w, void(int));
#line 160
  MAKE_MOCK1(q, std::unique_ptr<int>(int));
};
static unsigned wname[7], wnull, wwith, warrow, wthrew, wunknown, wboom, wparam;
static unsigned nx, nret;
static char const boom[] = "boom";
struct rec_tracer : trompeloeil::tracer
{
  unsigned n = 0; char const *file = nullptr; unsigned long line = 0;
  unsigned names = 0; bool hasnull = false; bool with = false, arrow = false, threw = false, unknown = false, hasboom = false, arg = false, ret = false, order_ok = false;
  void trace(char const *f, unsigned long l, std::string const &call) override
  {
    ++n; file = f; line = l;
    char const *msg = call.c_str();
    names = 0;
    for (int i = 0; i < 7; ++i) if (verif_msg_cnt(msg, wname[i]) == 1) names |= 1u << i;
    hasnull = verif_msg_cnt(msg, wnull) >= 1;
    with = verif_msg_cnt(msg, wwith) == 1;
    arrow = verif_msg_cnt(msg, warrow) == 1;
    threw = verif_msg_cnt(msg, wthrew) == 1;
    unknown = verif_msg_cnt(msg, wunknown) == 1;
    hasboom = verif_msg_cnt(msg, wboom) >= 1;
    arg = verif_msg_ncnt(msg, nx) >= 1 && verif_msg_cnt(msg, wparam) == 1;
    ret = verif_msg_ncnt(msg, nret) >= 1;
    order_ok = verif_msg_before(msg, wwith, wparam) && verif_msg_sbefore_n(msg, wparam, nx);
  }
};
static rec_tracer *stack[3]; static int depth;
static unsigned delivered[3];           // per stack slot: records the reference expects
static M *mp; static int x, rv, nested;
static bool any_fail;

static void call(int kind)
{
  rec_tracer *top = depth ? stack[depth - 1] : nullptr;
  unsigned before[3] = {0, 0, 0};
  for (int i = 0; i < depth; ++i) before[i] = stack[i]->n;
  bool got_std = false, got_int = false; int r = 0;
  try
  {
    if (kind == 4) r = mp->f(x);
    else if (kind == 5) mp->g(x);
    else if (kind == 6) r = mp->t(x);
    else if (kind == 8) r = mp->r(x);
    else if (kind == 9) mp->w(x);
    else if (kind == 2) { auto up = mp->q(x); r = (up && *up == rv) ? rv : ~rv; }
    else mp->u(x);
  }
  catch (std::logic_error &) { got_std = true; }
  catch (int) { got_int = true; }
  VCLAIM(17, vf_nreports == 0, "C17.call_accepted");
  VCLAIM(17, (kind != 9 || got_std), "C17.side_effect_exception_reaches_caller");
  VCLAIM(17, (kind != 6 || got_std) && (kind != 7 || got_int) && ((kind != 4 && kind != 8 && kind != 2) || r == rv), "C17.call_outcome_unchanged_by_tracing");
  for (int i = 0; i < depth; ++i)
    VCLAIM(17, stack[i]->n == before[i] + (i == depth - 1 ? (kind == 8 ? 2u : 1u) : 0u), "C17.exactly_one_record_to_innermost_tracer_only");
  if (top && kind == 8)
  {
    // the nested call's record was delivered first; the last one is the outer call's
    VCLAIM(17, top->names == (1u << 4) && top->line == 240ul && top->arrow && top->ret, "C17.nested_call_outer_record_last");
  }
  else if (top && kind == 2)
  {
    VCLAIM(17, top->names == (1u << 6) && top->line == 260ul && top->with && top->arg, "C17.record_carries_handlers_text");
    VCLAIM(17, top->arrow && !top->hasnull, "C17.traced_return_value_is_the_returned_one_not_a_moved_from_one");
  }
  else if (top && kind == 9)
  {
    VCLAIM(17, top->names == (1u << 5) && top->line == 250ul, "C17.record_carries_handlers_text");
    VCLAIM(17, top->with && top->arg, "C17.record_lists_arguments");
    VCLAIM(17, top->threw && top->hasboom && !top->arrow, "C17.exception_from_a_side_effect_is_traced");
  }
  else if (top)
  {
    int idx = kind - 4;
    VCLAIM(17, top->names == (1u << idx), "C17.record_carries_handlers_text");
    VCLAIM(17, top->line == (unsigned long)(200 + 10 * idx) && verif_str_eq_lit(top->file, __FILE__), "C17.record_carries_handlers_location");
    VCLAIM(17, top->with && top->arg && top->order_ok, "C17.record_lists_arguments");
    VCLAIM(17, top->arrow == (kind == 4) && (kind != 4 || top->ret), "C17.returned_value_traced_iff_value_returned");
    VCLAIM(17, top->threw == (kind == 6) && (kind != 6 || top->hasboom), "C17.std_exception_what_traced");
    VCLAIM(17, top->unknown == (kind == 7), "C17.unknown_exception_noted");
  }
}
static void op(int o)
{
  if (o == 1) { if (depth < 3) { stack[depth] = new rec_tracer; ++depth; } }
  else if (o == 3) { if (depth > 0) { --depth; delete stack[depth]; stack[depth] = nullptr; } }
  else if ((o >= 4 && o <= 9) || o == 2) call(o);
}
extern "C" void harness(void)
{
  M m; mp = &m;
  x = (int)verif_nondet_uint(); rv = (int)verif_nondet_uint();
  int lrv = rv;
#line 200
  auto e0 = NAMED_ALLOW_CALL(m, f(trompeloeil::_)).RETURN(lrv);
#line 210
  auto e1 = NAMED_ALLOW_CALL(m, g(trompeloeil::_));
#line 220
  auto e2 = NAMED_ALLOW_CALL(m, t(trompeloeil::_)).THROW(std::logic_error(boom));
#line 230
  auto e3 = NAMED_ALLOW_CALL(m, u(trompeloeil::_)).THROW(7);
#line 240
  auto e4 = NAMED_ALLOW_CALL(m, r(trompeloeil::_)).LR_SIDE_EFFECT(nested = mp->f(_1)).LR_RETURN(nested);
#line 250
  auto e5 = NAMED_ALLOW_CALL(m, w(trompeloeil::_)).SIDE_EFFECT(throw std::logic_error(boom));
#line 260
  auto e6 = NAMED_ALLOW_CALL(m, q(trompeloeil::_)).RETURN(std::unique_ptr<int>(new int(lrv)));
#line 300
  wname[4] = 0;
  wname[0] = verif_watch_str(e0->name); wname[1] = verif_watch_str(e1->name); wname[2] = verif_watch_str(e2->name); wname[3] = verif_watch_str(e3->name); wname[4] = verif_watch_str(e4->name); wname[5] = verif_watch_str(e5->name); wname[6] = verif_watch_str(e6->name); wnull = verif_watch_str("nullptr");
  wwith = verif_watch_str(" with.\n"); warrow = verif_watch_str(" -> ");
  wthrew = verif_watch_str("threw exception: what() = "); wunknown = verif_watch_str("threw unknown exception\n");
  nx = verif_watch_num((unsigned long)(long)x); nret = verif_watch_num((unsigned long)(long)rv);
  wparam = verif_watch_str("  param "); wboom = verif_watch_str(boom);
  VCLAIM(17, trompeloeil::tracer_obj() == nullptr, "C17.no_tracer_initially");
  op(VF_O1); op(VF_O2); op(VF_O3); op(VF_O4); op(VF_O5); op(VF_O6);
  // the current tracer is always the innermost live one (or none)
  VCLAIM(17, trompeloeil::tracer_obj() == (depth ? stack[depth - 1] : nullptr), "C17.current_tracer_is_innermost_live");
  while (depth) op(3);
  VCLAIM(17, trompeloeil::tracer_obj() == nullptr, "C17.no_tracer_after_all_destroyed");
  op(4);                                   // with no tracer alive nothing is traced (and nothing dangling is called)
  verif_reach();
}
