// C04 K-dtor: end of lifetime of one real expectation f(7) from an arbitrary counter state, in each lifetime-ending order.
//   VF_ORDER 0: expectation released while attached, then the mock dies
//            1: mock destroyed first, then the expectation released
//            2: a no-match call lists it first (already named in a violation report), then release, then mock dies
//            3: pre-saturated (sits in the saturated list), mock destroyed first, then released
//            4: listed in a no-match report, then the MOCK dies first, then release
//            5: listed in a no-match report, then it handles one more matching call but stays short, then release
// Obligations: number, severity, location and content (name, required / actual counts) of the reports.
#include "vfapi.h"
#ifndef VF_ORDER
#define VF_ORDER 0
#endif
struct M
{
#line 100
  MAKE_MOCK1(f, void(int));
};
using CM = vf_cm_t<void(int), int>;

extern "C" void harness(void)
{
  size_t L = verif_nondet_ulong(), H = verif_nondet_ulong(), c = verif_nondet_ulong();
#if VF_ORDER == 3
  verif_assume(L <= H && c == H && H > 0);
#elif VF_ORDER == 5
  verif_assume(L <= H && c < H && c + 1 < L);      // stays below its lower bound even after one more handled call
#else
  verif_assume(L <= H && c <= H && (c != H || H == 0));
#endif
  M *m = new M;
  unsigned effects = 0;
#line 200
  auto e = NAMED_REQUIRE_CALL(*m, f(7)).LR_SIDE_EFFECT(++effects);
#line 300
  CM *cm = e.get();
  unsigned wname = vf_needle(cm->name);
  unsigned wunf = vf_needle("Unfulfilled expectation"), wpend = vf_needle("Pending expectation on destroyed mock object");
  unsigned wonce = vf_needle("once"), wnever = vf_needle("never called\n"), wconce = vf_needle("called once\n");
  unsigned wtimes = vf_needle(" times");
  unsigned nL = vf_num(L), nc = vf_num(c);
  vf_poke(*cm->sequences, L, H, c);
#if VF_ORDER == 3
  cm->unlink(); m->trompeloeil_l_expectations_100.saturated.push_back(cm);
#endif
  bool shortfall = c < L;
  unsigned want = 0;

#if VF_ORDER == 4 || VF_ORDER == 5
  { bool threw = false; try { m->f(8); } catch (vf_reported &) { threw = true; }
    VCLAIM(4, threw && vf_nreports == 1 && vf_last.fatal, "C04.setup_no_match_listing"); }
  want = 1;
  VCLAIM(3, e->is_satisfied() == (c >= L) && e->is_saturated() == (c == H), "C03.flags_track_the_count_after_being_listed_in_a_report");
#if VF_ORDER == 4
  delete m;
  VCLAIM(4, vf_nreports == want, "C04.already_named_not_reported_again_when_mock_dies_first");
  e.reset();
  VCLAIM(4, vf_nreports == want, "C04.already_named_not_reported_again_at_release_after_mock");
#else
  m->f(7);
  VCLAIM(4, vf_nreports == want && cm->sequences->get_calls() == c + 1, "C04.setup_handled_call_after_listing");
  VCLAIM(16, vf_nok == 1, "C16.accepted_call_after_a_no_match_listing_still_gets_its_ok_report");
  VCLAIM(8, effects == 1, "C08.side_effects_run_for_an_accepted_call_after_an_earlier_no_match_listing");
  VCLAIM(1, vf_nreports == want && cm->sequences->get_calls() == c + 1, "C01.accepted_after_an_earlier_no_match_listing");
  e.reset();
  VCLAIM(4, vf_nreports == want, "C04.already_named_not_reported_again_after_handling_more_calls");
  delete m;
  VCLAIM(4, vf_nreports == want, "C04.nothing_at_mock_destruction_after_release");
#endif
#elif VF_ORDER == 2
  { bool threw = false; try { m->f(8); } catch (vf_reported &) { threw = true; }
    VCLAIM(4, threw && vf_nreports == 1 && vf_last.fatal, "C04.setup_no_match_listing"); }
  want = 1;
  e.reset();
  VCLAIM(4, vf_nreports == want, "C04.already_named_in_a_report_not_reported_again");
  delete m;
  VCLAIM(4, vf_nreports == want, "C04.nothing_at_mock_destruction_after_release");
#elif VF_ORDER == 0
  e.reset();
  if (shortfall) ++want;
  VCLAIM(4, vf_nreports == want, "C04.release_reports_once_iff_shortfall");
  if (shortfall) VCLAIM(4, (vf_last.mask & wunf) && !(vf_last.mask & wpend), "C04.release_reason_unfulfilled");
  delete m;
  VCLAIM(4, vf_nreports == want, "C04.nothing_at_mock_destruction_after_release");
#else   /* 1, 3, 4: the mock dies first */
  delete m;
  if (shortfall) ++want;
  VCLAIM(4, vf_nreports == want, "C04.mock_destruction_reports_once_iff_shortfall");
  if (shortfall) VCLAIM(4, (vf_last.mask & wpend) && !(vf_last.mask & wunf), "C04.mock_destruction_reason_pending");
  VCLAIM(4, !cm->is_linked(), "C04.detached_from_destroyed_mock");
  VCLAIM(3, e->is_satisfied() == (c >= L) && e->is_saturated() == (c == H), "C03.flags_track_the_count_after_the_mock_died");
  VCLAIM(14, !cm->is_linked(), "C14.expectation_survives_its_mock_detached");
  e.reset();
  VCLAIM(4, vf_nreports == want, "C04.no_second_report_at_release");
#endif
#if VF_ORDER != 2 && VF_ORDER != 4 && VF_ORDER != 5
  if (shortfall)
  {
    VCLAIM(4, !vf_last.fatal, "C04.end_of_life_report_nonfatal");
    VCLAIM(15, !vf_last.fatal, "C15.end_of_life_report_nonfatal");
    VCLAIM(4, vf_last.line == 200 && verif_str_eq_lit(vf_last.file, __FILE__), "C04.report_location_is_expectations");
    VCLAIM(15, vf_last.line == 200, "C15.report_carries_expectation_line");
    VCLAIM(4, (vf_last.mask & wname) != 0, "C04.report_names_expectation_text");
    // required count: "once" iff L == 1, else the number L followed by " times"
    VCLAIM(4, ((vf_last.mask & wonce) != 0) == (L == 1) || (vf_last.mask & wconce), "C04.required_once_wording");
    VCLAIM(4, L == 1 || (vf_last.nmask & nL), "C04.required_count_printed");
    // actual count: never / once / N times
    VCLAIM(4, ((vf_last.mask & wnever) != 0) == (c == 0), "C04.actual_never_wording");
    VCLAIM(4, ((vf_last.mask & wconce) != 0) == (c == 1), "C04.actual_once_wording");
    VCLAIM(4, c <= 1 || (vf_last.nmask & nc), "C04.actual_count_printed");
    VCLAIM(4, !(c > 1 || L != 1) || (vf_last.mask & wtimes), "C04.times_wording");
  }
  else
    VCLAIM(4, vf_nreports == 0, "C04.satisfied_never_reports");
#endif
  verif_reach();
}
