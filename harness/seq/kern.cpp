// C05/C06 kernel: real sequence objects, real sequence_handler<1|2> with real sequence_matcher handles,
// arbitrary counters.  VF_N handles registered in order in sequence A; with VF_K==2 every handle EXCEPT the first is
// also registered in sequence B (so a handle's position, hence its cost, differs between its two sequences: i in A, i-1
// in B); VF_ORD says which sequence such a handle names first (0: A then B, 1: B then A).
// VF_GONE = bitmask of handles that have left sequence A before the step (retire()).
// Units: sequence_type::cost/is_first/is_completed/retire_until/add_last/~sequence_type,
//        sequence_matcher::cost/retire/retire_predecessors/is_satisfied/is_optional,
//        sequence_matchers<N>::order/retire/retire_predecessors, sequence_handler<N>::order/can_be_called.
#include "vfapi.h"
#ifndef VF_N
#define VF_N 3
#endif
#ifndef VF_K
#define VF_K 1
#endif
#ifndef VF_GONE
#define VF_GONE 0
#endif
#ifndef VF_OP
#define VF_OP 0     /* 0: queries only, 1: retire_predecessors(pick), 2: retire(pick), 3: destroy sequence A, 4: destroy handle pick */
#endif
#ifndef VF_PICK
#define VF_PICK 0
#endif
using trompeloeil::sequence_matcher;
using H1 = trompeloeil::sequence_handler<1>;
using H2 = trompeloeil::sequence_handler<2>;
using HB = trompeloeil::sequence_handler_base;
#ifndef VF_ORD
#define VF_ORD 0
#endif

static bool listedA(int i, unsigned gone) { return !(gone & (1u << i)); }

extern "C" void harness(void)
{
  auto *A = new trompeloeil::sequence;
  trompeloeil::sequence B;
  trompeloeil::sequence_handler<0> base;
  static char const *names[4] = {"e0", "e1", "e2", "e3"};
  size_t L[4], Hi[4], c[4];
  HB *h[4] = {nullptr, nullptr, nullptr, nullptr};
  for (int i = 0; i < VF_N; ++i)
  {
    L[i] = verif_nondet_ulong(); Hi[i] = verif_nondet_ulong(); c[i] = verif_nondet_ulong();
    verif_assume(L[i] <= Hi[i] && c[i] <= Hi[i]);
  }
  for (int i = 0; i < VF_N; ++i)
  {
    trompeloeil::location loc{"file", (unsigned long)(10 + i)};
    if (VF_K == 1 || i == 0)
      h[i] = new H1(base, names[i], loc, sequence_matcher::init_type{"A", *A});
    else if (VF_ORD == 0)
      h[i] = new H2(base, names[i], loc, sequence_matcher::init_type{"A", *A}, sequence_matcher::init_type{"B", B});
    else
      h[i] = new H2(base, names[i], loc, sequence_matcher::init_type{"B", B}, sequence_matcher::init_type{"A", *A});
  }
  for (int i = 0; i < VF_N; ++i) vf_poke(*h[i], L[i], Hi[i], c[i]);
  unsigned gone = VF_GONE;
  // a handle that is "gone" has left all of its sequences (retired by a successor's match, or saturated)
  for (int i = 0; i < VF_N; ++i)
    if (!listedA(i, gone)) h[i]->retire();
  // is handle i's link into sequence A still in place?
  auto linkedA = [&](int i) -> bool {
    if (VF_K == 1 || i == 0) return static_cast<H1 *>(h[i])->matchers.matchers[0].is_linked();
    return static_cast<H2 *>(h[i])->matchers.matchers[VF_ORD == 0 ? 0 : 1].is_linked();
  };
  auto sat = [&](int i) { return c[i] >= L[i]; };
  // reference cost in A: position among listed handles if all listed predecessors satisfied, else ~0U; ~0U if not listed
  auto refcostA = [&](int i, unsigned g) -> unsigned {
    if (!listedA(i, g)) return ~0U;
    unsigned pos = 0;
    for (int j = 0; j < i; ++j) if (listedA(j, g)) { if (!sat(j)) return ~0U; ++pos; }
    return pos;
  };
  auto check_all = [&](unsigned g, char const *tag) {
    bool completed = true;
    for (int i = 0; i < VF_N; ++i) if (listedA(i, g) && !sat(i)) completed = false;
    VCLAIM(6, A->is_completed() == completed, "C06.is_completed_iff_all_listed_satisfied");
    for (int i = 0; i < VF_N; ++i)
    {
      unsigned want = refcostA(i, g);
#if VF_K == 2
      if (i >= 1)
      {
        // B lists handles 1..N-1 (those not gone), same relative order
        unsigned wb = 0; bool blocked = !listedA(i, g);
        for (int j = 1; j < i; ++j) if (listedA(j, g)) { if (!sat(j)) blocked = true; ++wb; }
        if (blocked) wb = ~0U;
        want = want > wb ? want : wb;
      }
#endif
      VCLAIM(5, h[i]->order() == want, "C05.order_is_max_cost_over_sequences");
      VCLAIM(2, h[i]->order() == want, "C02.cost_is_the_largest_over_the_named_sequences");
      VCLAIM(5, h[i]->can_be_called() == (want != ~0U), "C05.eligible_iff_all_pending_predecessors_satisfied");
      VCLAIM(1, h[i]->can_be_called() == (want != ~0U), "C01.permitted_by_its_sequences_iff_pending_predecessors_satisfied");
    }
    (void)tag;
  };
  check_all(gone, "pre");
#if VF_OP == 1
  h[VF_PICK]->retire_predecessors();
  if (listedA(VF_PICK, gone)) for (int j = 0; j < VF_PICK; ++j) gone |= 1u << j;
  else gone = (1u << VF_N) - 1;            // retire_until of an unlisted handle empties the sequence
  if (VF_K == 1 || listedA(VF_PICK, VF_GONE)) check_all(gone, "post");
  VCLAIM(5, !listedA(VF_PICK, VF_GONE) || h[VF_PICK]->order() == 0, "C05.picked_is_first_after_retire_predecessors");
#elif VF_OP == 2
  h[VF_PICK]->retire();
  gone |= 1u << VF_PICK;
  check_all(gone, "post");
#elif VF_OP == 3
  {
    unsigned need[4];
    for (int i = 0; i < VF_N; ++i) need[i] = vf_needle(names[i]);   // watch index i
    vf_want_ord = true;
    delete A; A = nullptr;
    unsigned want_mask = 0; bool any = false;
    for (int i = 0; i < VF_N; ++i) if (listedA(i, gone)) { want_mask |= need[i]; any = true; }
    VCLAIM(6, vf_nreports == (any ? 1u : 0u), "C06.teardown_reports_once_iff_pending");
    if (any)
    {
      VCLAIM(6, !vf_last.fatal, "C06.teardown_report_nonfatal");
      VCLAIM(6, vf_last.mask == want_mask, "C06.teardown_lists_exactly_pending");
      for (int i = 0; i < VF_N; ++i)
        for (int j = i + 1; j < VF_N; ++j)
          if (listedA(i, gone) && listedA(j, gone))
            VCLAIM(6, (vf_last.ord & vf_ord(i, j)) != 0, "C06.teardown_lists_in_registration_order");
    }
    // the handles survive their sequence and are detached
    for (int i = 0; i < VF_N; ++i)
    {
      VCLAIM(6, !linkedA(i), "C06.teardown_detaches_handles");
    }
  }
#elif VF_OP == 4
  delete h[VF_PICK]; h[VF_PICK] = nullptr;
  gone |= 1u << VF_PICK;
  {
    bool completed = true;
    for (int i = 0; i < VF_N; ++i) if (listedA(i, gone) && !sat(i)) completed = false;
    VCLAIM(6, A->is_completed() == completed, "C06.released_handle_no_longer_blocks");
    for (int i = 0; i < VF_N; ++i)
      if (h[i] && VF_K == 1) VCLAIM(5, h[i]->order() == refcostA(i, gone), "C05.order_after_release");
  }
#endif
  // teardown in an order of the harness' choosing: handles first, then sequences (quiet: nothing listed)
  for (int i = 0; i < VF_N; ++i) delete h[i];
  unsigned before = vf_nreports;
  delete A;
  VCLAIM(6, vf_nreports == before, "C06.empty_sequence_teardown_silent");
  verif_reach();
}
