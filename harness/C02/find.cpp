// C02/C01 kernel: the real trompeloeil::find<Sig>() over a list of VF_N expectations whose
// match outcome and sequence cost are arbitrary.  Oracle: selection rule of C02.
#include "verif.h"
#include <trompeloeil.hpp>
#ifndef VF_N
#define VF_N 4
#endif
using Sig = int(int);
using params_t = trompeloeil::call_params_type_t<Sig>;

struct stub : trompeloeil::call_matcher_base<Sig>
{
  stub() : trompeloeil::call_matcher_base<Sig>(trompeloeil::location{}, "stub") {}
  bool m = false;
  unsigned c = 0;
  mutable unsigned asked = 0;
  void mock_destroyed() override {}
  bool matches(params_t const&) const override { ++asked; return m; }
  unsigned sequence_cost() const noexcept override { return c; }
  void run_actions(params_t&, trompeloeil::call_matcher_list<Sig>&) override {}
  std::ostream& report_signature(std::ostream& os) const override { return os; }
  std::ostream& report_mismatch(std::ostream& os, params_t const&) override { return os; }
  int return_value(trompeloeil::trace_agent&, params_t&) override { return 0; }
};

extern "C" void harness(void)
{
  trompeloeil::call_matcher_list<Sig> list;
  stub s[VF_N > 0 ? VF_N : 1];
  for (int i = 0; i < VF_N; ++i)
  {
    s[i].m = (verif_nondet_uchar() & 1) != 0;
    s[i].c = verif_nondet_uint();
    list.push_back(&s[i]);           // s[0] is first in the list == newest expectation
  }
  int x = (int)verif_nondet_uint();
  params_t params{x};
  auto *r = trompeloeil::find(list, params);

  // reference: first cost-0 match; else strictly lowest cost, first seen on ties; null iff no match
  int want = -1;
  for (int i = 0; i < VF_N; ++i)
  {
    if (!s[i].m) continue;
    if (s[i].c == 0) { want = i; break; }
    if (want < 0 || s[i].c < s[want].c) want = i;
  }
  bool any = false;
  for (int i = 0; i < VF_N; ++i) any = any || s[i].m;
  VASSERT((r == nullptr) == !any, "find.null_iff_no_match");
  if (want >= 0)
    VASSERT(r == &s[want], "find.selection_rule");
  else
    VASSERT(r == nullptr, "find.no_candidate");
  // nothing is modified by the search
  for (int i = 0; i < VF_N; ++i)
    VASSERT(s[i].is_linked(), "find.list_untouched");
  verif_reach();
}
