// C03 K-run: one real mock call from an arbitrary counter state (one-step induction on run_actions/mock_func).
// pre-state: one expectation f(_) linked in the active list, limits/count poked symbolically under
//   INV:  L <= H  &&  count <= H  &&  (count == H  =>  H == 0)     (a listed expectation is not saturated unless forbidden)
#include "vfapi.h"
struct M
{
#line 100
  MAKE_MOCK1(f, void(int));
};
#ifndef VF_REGIME
#define VF_REGIME 9
#endif
extern "C" void harness(void)
{
  M m;
  size_t L = verif_nondet_ulong(), H = verif_nondet_ulong(), c = verif_nondet_ulong();
  int x = (int)verif_nondet_uint();
  unsigned effects = 0;
  auto e = NAMED_REQUIRE_CALL(m, f(trompeloeil::_)).LR_SIDE_EFFECT(++effects);
  auto *cm = vf_cm<vf_cm_t<void(int), trompeloeil::wildcard>>(e);
#if VF_REGIME == 0          /* forbidden */
  H = 0; L = 0; c = 0;
#elif VF_REGIME == 1        /* stays unsaturated: H = c + d, d >= 2 */
  { size_t d = verif_nondet_ulong(); verif_assume(d >= 2 && c <= ~(size_t)0 - d); H = c + d; verif_assume(L <= H); }
#elif VF_REGIME == 2        /* saturates with this call */
  verif_assume(c != ~(size_t)0); H = c + 1; verif_assume(L <= H);
#else
  verif_assume(L <= H && c <= H && (c != H || H == 0));
#endif
  vf_poke(*cm->sequences, L, H, c);
  bool threw = false;
  try { m.f(x); } catch (vf_reported &) { threw = true; }
  size_t c2 = cm->sequences->get_calls();
  if (H == 0)
  {
    VASSERT(threw && vf_nreports == 1 && vf_first.fatal, "run.forbidden_one_fatal");
    VASSERT(c2 == c && effects == 0, "run.forbidden_no_change");
    VASSERT(e->is_satisfied() && e->is_saturated(), "run.forbidden_flags");
    VASSERT(cm->is_linked() && &*m.trompeloeil_l_expectations_100.active.begin() == cm, "run.forbidden_stays_active");
  }
  else
  {
    VASSERT(!threw && vf_nreports == 0, "run.accepted_no_report");
    VASSERT(c2 == c + 1, "run.count_advances_by_one");
    VASSERT(effects == 1, "run.side_effect_once");
    VASSERT(e->is_satisfied() == (c + 1 >= L), "run.is_satisfied");
    VASSERT(e->is_saturated() == (c + 1 == H), "run.is_saturated");
    bool in_active = !m.trompeloeil_l_expectations_100.active.empty() && &*m.trompeloeil_l_expectations_100.active.begin() == cm;
    bool in_saturated = !m.trompeloeil_l_expectations_100.saturated.empty() && &*m.trompeloeil_l_expectations_100.saturated.begin() == cm;
    VASSERT(in_saturated == (c + 1 == H), "run.moves_to_saturated_iff_max");
    VASSERT(in_active == (c + 1 != H), "run.stays_active_otherwise");
    VASSERT(c2 <= H && (c2 != H || in_saturated), "run.invariant_again");
  }
  VASSERT(cm->sequences->get_min_calls() == L && cm->sequences->max_calls == H, "run.limits_unchanged");
  vf_poke(*cm->sequences, 0, H, c2);   // end quietly: no unfulfilled report from the harness' own teardown
  verif_reach();
}
