// C03 K-counter: the real counter predicates of sequence_handler_base for ALL 64-bit (L, H, count).
#include "vfapi.h"
extern "C" void harness(void)
{
  trompeloeil::sequence_handler<0> h;
  // defaults are (1,1,0)
  VASSERT(h.get_min_calls() == 1 && h.get_calls() == 0 && !h.is_satisfied() && !h.is_saturated() && !h.is_forbidden(), "counter.defaults");
  size_t L = verif_nondet_ulong(), H = verif_nondet_ulong(), c = verif_nondet_ulong();
  h.set_limits(L, H);
  VASSERT(h.get_min_calls() == L, "counter.set_limits_min");
  VASSERT(h.max_calls == H, "counter.set_limits_max");
  VASSERT(h.get_calls() == 0, "counter.set_limits_keeps_count");
  h.call_count = c;
  VASSERT(h.is_satisfied() == (c >= L), "counter.is_satisfied");
  VASSERT(h.is_saturated() == (c == H), "counter.is_saturated");
  VASSERT(h.is_forbidden() == (H == 0), "counter.is_forbidden");
  VASSERT(h.get_calls() == c, "counter.get_calls");
  h.increment_call();
  VASSERT(h.get_calls() == c + 1, "counter.increment");
  VASSERT(h.get_min_calls() == L && h.max_calls == H, "counter.increment_keeps_limits");
  VASSERT(h.is_satisfied() == (c + 1 >= L), "counter.is_satisfied_after");
  VASSERT(h.is_saturated() == (c + 1 == H), "counter.is_saturated_after");
  // the unsequenced handler is always callable at cost 0 and retire is a no-op
  VASSERT(h.can_be_called() && h.order() == 0, "counter.unsequenced_callable");
  // copy construction (used by set_sequence) carries limits and count
  trompeloeil::sequence_handler_base const &b = h;
  struct probe : trompeloeil::sequence_handler_base {
    probe(trompeloeil::sequence_handler_base const &o) : trompeloeil::sequence_handler_base(o) {}
    void validate(trompeloeil::severity, char const *, trompeloeil::location) override {}
    bool can_be_called() const noexcept override { return true; }
    unsigned order() const noexcept override { return 0; }
    void retire() noexcept override {}
    void retire_predecessors() noexcept override {}
  } p(b);
  VASSERT(p.get_min_calls() == L && p.max_calls == H && p.get_calls() == c + 1, "counter.copy_carries_state");
  verif_reach();
}
