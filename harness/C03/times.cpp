// C03 K-times: the real runtime_times::action / times::action on a minimal matcher, for ALL 64-bit (low, high):
// inverted bounds throw std::logic_error and store nothing; otherwise the limits are stored verbatim.
#include "vfapi.h"
struct fake_matcher
{
  std::unique_ptr<trompeloeil::sequence_handler_base> sequences = trompeloeil::detail::make_unique<trompeloeil::sequence_handler<0>>();
};
using Mod = trompeloeil::call_modifier<fake_matcher, void, trompeloeil::matcher_info<void(int)>>;
extern "C" void harness(void)
{
  { auto l = trompeloeil::get_lock(); }
  size_t lo = verif_nondet_ulong(), hi = verif_nondet_ulong();
  auto fm = trompeloeil::detail::make_unique<fake_matcher>();
  fake_matcher *raw = fm.get();
  Mod m{std::move(fm)};
  bool threw = false;
  try
  {
    auto r = trompeloeil::runtime_times::action(std::move(m), trompeloeil::rt_multiplicity{lo, hi});
    VCLAIM(3, r.matcher.get() == raw, "C03.rt_times_passes_the_expectation_on");
    VCLAIM(3, raw->sequences->get_min_calls() == lo && raw->sequences->max_calls == hi && raw->sequences->get_calls() == 0, "C03.rt_times_limits_verbatim");
    VCLAIM(12, verif_lock_depth() == 0, "C12.lock_released_after_rt_times");
  }
  catch (std::logic_error &) { threw = true; }
  VCLAIM(3, threw == (hi < lo), "C03.rt_times_throws_iff_inverted");
  VCLAIM(12, verif_lock_depth() == 0, "C12.lock_released_after_rt_times_throw");
  if (threw)
  {
    // the modifier still owns the untouched expectation (it is destroyed with it: nothing is left behind)
    VCLAIM(3, m.matcher.get() == raw && raw->sequences->get_min_calls() == 1 && raw->sequences->max_calls == 1, "C03.inverted_rt_times_stores_nothing");
  }
  {
    auto fm2 = trompeloeil::detail::make_unique<fake_matcher>();
    fake_matcher *raw2 = fm2.get();
    Mod m2{std::move(fm2)};
    auto r2 = trompeloeil::times::action(std::move(m2), trompeloeil::multiplicity<2, 5>{});
    VCLAIM(3, raw2->sequences->get_min_calls() == 2 && raw2->sequences->max_calls == 5, "C03.times_limits_verbatim");
    trompeloeil::rt_multiplicity one{lo};
    VCLAIM(3, one.low == lo && one.high == lo, "C03.rt_multiplicity_single_value");
  }
  verif_reach();
}
