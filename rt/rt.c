/* rt.c -- runtime / environment model for the IR-derived C.  Every function here is part of the claim
 * (DESIGN.md section 4).  Compiled by cbmc (symbolic) and by gcc (concrete mode, translator validation).
 * ABI of externals: every pointer is P (unsigned char*), integers keep their LLVM width (i1 -> uint8_t).
 */
#include "rt.h"
#include <string.h>

int __vf_exc_pending; P __vf_exc_ptr; static P exc_ti;
static P caught[4]; static P caught_ti[4]; static int ncaught;
int __vf_lock_depth;

/* well-known external typeinfo / vtable symbols: always emitted by the translator */
extern P g__ZTISt11logic_error[], g__ZTISt9exception[], g__ZTISt13runtime_error[];
extern P g__ZTVSt11logic_error[], g__ZTVSt9exception[];
extern P g__ZTVN10__cxxabiv120__si_class_type_infoE[];

static P ti_base(P ti) {
  if (ti == (P)g__ZTISt11logic_error) return (P)g__ZTISt9exception;
  if (ti == (P)g__ZTISt13runtime_error) return (P)g__ZTISt9exception;
  if (ti == (P)g__ZTISt9exception) return 0;
  if (*(P*)ti == (P)g__ZTVN10__cxxabiv120__si_class_type_infoE + 16) return *(P*)(ti + 16);
  return 0;
}
int __vf_exc_match(P c) {
  if (!c) return 1;
  P t = exc_ti;
  for (int i = 0; i < 5 && t; ++i) { if (t == c) return 1; t = ti_base(t); }
  return 0;
}
/* selector values: 1 = catch-all / cleanup, >= 2 = index of the typeinfo in a small table (no pointer->integer cast:
 * cbmc's pointer encoding keeps the object number in the high bits, a 32-bit truncation would make all typeinfos equal) */
static P tid_tab[8]; static uint32_t ntid;
uint32_t __vf_typeid(P ti) {
#define T(i) if (i < ntid && tid_tab[i] == ti) return i + 2u;
  T(0) T(1) T(2) T(3) T(4) T(5) T(6) T(7)
#undef T
  if (ntid >= 8) VF_FAIL("too many distinct catch types");
  tid_tab[ntid] = ti; return (ntid++) + 2u;
}

void __vf_unreachable(void) { VF_FAIL("unreachable executed"); }
void __vf_abort(void) { VF_FAIL("abort/terminate"); }
void __vf_badcall(void) { VF_FAIL("indirect call to unknown function"); }
void __vf_memcpy(P d, P s, uint64_t n) { memmove(d, s, n); }
void __vf_memset(P d, uint8_t c, uint64_t n) { memset(d, c, n); }

/* ---- allocation: never fails (allocation failure is outside every property) */
P x__Znwm(uint64_t n) { P p = malloc(n); __vf_assume_nonnull(p); return p; }
P x__Znam(uint64_t n) { P p = malloc(n); __vf_assume_nonnull(p); return p; }
void x__ZdlPv(P p) { free(p); }
void x__ZdaPv(P p) { free(p); }
void x__ZdlPvm(P p, uint64_t n) { free(p); }
P x___cxa_allocate_exception(uint64_t n) { P p = malloc(n); __vf_assume_nonnull(p); return p; }
void x___cxa_free_exception(P p) { free(p); }
/* ---- exceptions: pending flag (translator tests it after every call that may unwind) */
int __vf_uncaught;   /* exceptions thrown and not yet caught (std::uncaught_exceptions): cleanups during unwinding see > 0 */
void x___cxa_throw(P o, P ti, P d) { __vf_exc_pending = 1; __vf_exc_ptr = o; exc_ti = ti; ++__vf_uncaught; }
uint32_t x__ZSt19uncaught_exceptionsv(void) { return (uint32_t)__vf_uncaught; }
uint8_t x__ZSt18uncaught_exceptionv(void) { return __vf_uncaught > 0; }
P x___cxa_begin_catch(P e) { __vf_exc_pending = 0; if (__vf_uncaught > 0) --__vf_uncaught; if (ncaught >= 4) VF_FAIL("catch depth"); caught[ncaught] = e; caught_ti[ncaught] = exc_ti; ++ncaught; return e; }
void x___cxa_end_catch(void) { if (ncaught <= 0) VF_FAIL("end_catch"); --ncaught; }
void x___cxa_rethrow(void) { if (ncaught <= 0) VF_FAIL("rethrow"); ++__vf_uncaught; __vf_exc_pending = 1; __vf_exc_ptr = caught[ncaught-1]; exc_ti = caught_ti[ncaught-1]; }
P x___cxa_get_exception_ptr(P e) { return e; }
/* std::current_exception() as used by default_reporter ("is an exception in flight?"): the handle of the innermost caught exception, null if none */
void x__ZSt17current_exceptionv(P r) { *(P*)r = ncaught > 0 ? caught[ncaught - 1] : 0; }
void x__ZNSt15__exception_ptr13exception_ptr10_M_releaseEv(P a0) {}
void x__ZNSt15__exception_ptr13exception_ptr9_M_addrefEv(P a0) {}
int __vf_guard_depth;     /* inside a thread-safe function-local static initialisation (between guard_acquire and guard_release) */
uint32_t x___cxa_guard_acquire(P g) { if (*g == 0) { ++__vf_guard_depth; return 1; } return 0; }
void x___cxa_guard_release(P g) { *g = 1; --__vf_guard_depth; }
void x___cxa_guard_abort(P g) { --__vf_guard_depth; }
uint32_t x___cxa_atexit(P f, P a, P d) { return 0; }
void x__ZSt9terminatev(void) { VF_FAIL("std::terminate"); }
void x_abort(void) { VF_FAIL("abort"); }
void x___cxa_call_unexpected(P e) { VF_FAIL("unexpected"); }
void x___cxa_pure_virtual(void) { VF_FAIL("pure virtual"); }
void x___clang_call_terminate(P e) { VF_FAIL("terminate (noexcept violated)"); }
void x__ZSt20__throw_system_errori(uint32_t e) { VF_FAIL("system_error"); }
void x__ZSt17__throw_bad_allocv(void) { VF_FAIL("bad_alloc"); }
void x__ZSt28__throw_bad_array_new_lengthv(void) { VF_FAIL("bad_array_new_length"); }
void x__ZSt20__throw_length_errorPKc(P m) { VF_FAIL("length_error"); }
void x__ZSt25__throw_bad_function_callv(void) { VF_FAIL("bad_function_call"); }
void x__ZSt24__throw_out_of_range_fmtPKcz(P m) { VF_FAIL("out_of_range"); }
uint32_t x_strcmp(P a, P b) { for (int i = 0; i < 64; ++i) { if (a[i] != b[i]) return a[i] < b[i] ? (uint32_t)-1 : 1u; if (a[i] == 0) return 0; } return 0; }
uint64_t x_strlen(P s) { uint64_t n = 0; while (s[n]) ++n; return n; }
/* std::logic_error / std::exception: {vptr, msg}; the vptr points at the modelled vtable emitted by the translator
 * ([D1, D0, what]); what() returns the construction pointer */
static void le_init(P a0, P msg) { *(P*)a0 = (P)&g__ZTVSt11logic_error[2]; *(P*)(a0+8) = msg; }
void x__ZNSt11logic_errorC1EPKc(P a0, P a1) { le_init(a0, a1); }
void x__ZNSt11logic_errorC2EPKc(P a0, P a1) { le_init(a0, a1); }
void x__ZNSt11logic_errorC2ERKNSt7__cxx1112basic_stringIcSt11char_traitsIcESaIcEEE(P a0, P a1) { le_init(a0, a1); }
void x__ZNSt11logic_errorC1ERKNSt7__cxx1112basic_stringIcSt11char_traitsIcESaIcEEE(P a0, P a1) { le_init(a0, a1); }
void x__ZNSt11logic_errorC2ERKS_(P a0, P a1) { le_init(a0, *(P*)(a1+8)); }
void x__ZNSt11logic_errorC1ERKS_(P a0, P a1) { le_init(a0, *(P*)(a1+8)); }
void x__ZNSt11logic_errorD1Ev(P a0) {}
void x__ZNSt11logic_errorD2Ev(P a0) {}
void x__ZNSt11logic_errorD0Ev(P a0) { free(a0); }
P x__ZNKSt11logic_error4whatEv(P a0) { return *(P*)(a0+8); }
void x__ZNSt9exceptionD2Ev(P a0) {}
void x__ZNSt9exceptionD1Ev(P a0) {}
void x__ZNSt9exceptionD0Ev(P a0) { free(a0); }
static unsigned char std_exception_what[] = "std::exception";
P x__ZNKSt9exception4whatEv(P a0) { return std_exception_what; }
/* ---- the one global recursive mutex.  "The" mutex is the first one ever locked (harnesses take the lock once up front);
 * any other mutex object is balanced separately and never counts as holding the global lock.  Its construction must
 * happen inside a thread-safe static initialisation (first use from several threads at once). */
static P __vf_the_mutex; static int __vf_other_depth;
void x__ZNSt15recursive_mutexC2Ev(P a0) { VF_ASSERT(__vf_guard_depth > 0, "VA:C12.global_lock_constructed_outside_a_thread_safe_static_initialisation"); }
#ifdef VF_SCHED
/* schedule points: the harness' verif_on_acquire() runs whenever the mutex is about to be taken at depth 0 (C12/sched.cpp) */
void f_verif_on_acquire(void);
#define VF_ACQ() do { if (__vf_lock_depth == 0) f_verif_on_acquire(); } while (0)
#else
#define VF_ACQ() do { } while (0)
#endif
static void vf_lock(P m) { if (!__vf_the_mutex) __vf_the_mutex = m; if (m != __vf_the_mutex) { ++__vf_other_depth; return; } VF_ACQ(); ++__vf_lock_depth; }
static void vf_unlock(P m)
{
  if (m != __vf_the_mutex) { if (__vf_other_depth <= 0) VF_FAIL("unlock of unlocked mutex"); --__vf_other_depth; return; }
  if (__vf_lock_depth <= 0) VF_FAIL("unlock of unlocked mutex");
  --__vf_lock_depth;
}
void x__ZNSt15recursive_mutex4lockEv(P a0) { vf_lock(a0); }
void x__ZNSt15recursive_mutex6unlockEv(P a0) { vf_unlock(a0); }
uint32_t x_pthread_mutex_lock(P m) { vf_lock(m); return 0; }
uint32_t x_pthread_mutex_unlock(P m) { vf_unlock(m); return 0; }
uint32_t x___pthread_key_create(P a, P b) { return 0; }
uint32_t x___cxa_thread_atexit(P f, P obj, P dso) { return 0; }   /* thread-exit destructors never run inside a harness */

#include "strings.inc"

/* ---- harness interface */
#ifdef __CPROVER__
uint64_t nondet_u64(void); uint32_t nondet_u32(void); uint8_t nondet_u8(void);
/* replay reads these return values back from the counterexample trace, in state order */
uint64_t x_verif_nondet_ulong(void) { uint64_t v = nondet_u64(); return v; }
uint32_t x_verif_nondet_uint(void) { uint32_t v = nondet_u32(); return v; }
uint8_t x_verif_nondet_uchar(void) { uint8_t v = nondet_u8(); return v; }
void x_verif_assume(uint32_t c) { __CPROVER_assume(c != 0); }
#else
static uint64_t *replay_vals; static int replay_n, replay_pos;
static uint64_t nextv(void) { return replay_pos < replay_n ? replay_vals[replay_pos++] : 0; }
uint64_t x_verif_nondet_ulong(void) { return nextv(); }
uint32_t x_verif_nondet_uint(void) { return (uint32_t)nextv(); }
uint8_t x_verif_nondet_uchar(void) { return (uint8_t)nextv(); }
void x_verif_assume(uint32_t c) { if (!c) { printf("ASSUMPTION-VIOLATED\n"); exit(3);} }
void __vf_assert_fail(const char *id) { printf("ASSERTION FAILED: %s\n", id); exit(1); }
void __vf_reached(void) { printf("REACHED\n"); }
#endif
void __vf_access(void *p, int w) {}
/* std::list node linkage lives in libstdc++.so: _List_node_base { next, prev } */
void x__ZNSt8__detail15_List_node_base7_M_hookEPS0_(P self, P pos) {
  P prev = *(P*)(pos + 8);
  *(P*)self = pos; *(P*)(self + 8) = prev; *(P*)prev = self; *(P*)(pos + 8) = self;
}
void x__ZNSt8__detail15_List_node_base9_M_unhookEv(P self) {
  P next = *(P*)self, prev = *(P*)(self + 8);
  *(P*)prev = next; *(P*)(next + 8) = prev;
}
/* ---- std::regex: the engine is libstdc++ and outside the claim; construction is inert and regex_search answers an arbitrary bool */
static uint32_t rx_asked, rx_verdict, rx_len;
#ifdef __CPROVER__
uint8_t nondet_u8(void);
#endif
void x__ZNSt7__cxx1111basic_regexIcNS_12regex_traitsIcEEEC2ISt11char_traitsIcESaIcEEERKNS_12basic_stringIcT_T0_EENSt15regex_constants18syntax_option_typeE(P a0, P a1, uint32_t f) {}
void x__ZNSt7__cxx1111basic_regexIcNS_12regex_traitsIcEEEC2EOS3_(P a0, P a1) {}
void x__ZNSt7__cxx1111basic_regexIcNS_12regex_traitsIcEEED2Ev(P a0) {}
uint8_t x__ZSt12regex_searchIPKccNSt7__cxx1112regex_traitsIcEEEbT_S5_RKNS2_11basic_regexIT0_T1_EENSt15regex_constants15match_flag_typeE(P b, P e, P re, uint32_t fl) {
  if (b == 0) VF_FAIL("regex_search on a null subject");
  rx_asked++; rx_len = (uint32_t)(e - b);
#ifdef __CPROVER__
  rx_verdict = nondet_u8() & 1;
#else
  rx_verdict = 1;
#endif
  return (uint8_t)rx_verdict;
}
/* the C-string overload: the searched range runs to the first NUL byte */
uint8_t x__ZSt12regex_searchIcNSt7__cxx1112regex_traitsIcEEEbPKT_RKNS0_11basic_regexIS3_T0_EENSt15regex_constants15match_flag_typeE(P s, P re, uint32_t fl) {
  if (s == 0) VF_FAIL("regex_search on a null subject");
  uint32_t n = 0;
  while (n < 64 && s[n] != 0) ++n;
  rx_asked++; rx_len = n;
#ifdef __CPROVER__
  rx_verdict = nondet_u8() & 1;
#else
  rx_verdict = 1;
#endif
  return (uint8_t)rx_verdict;
}
uint32_t x_verif_last_regex_verdict(void) { uint32_t v = rx_verdict; rx_verdict = 0; return v; }
uint32_t x_verif_regex_asked(void) { uint32_t v = rx_asked; rx_asked = 0; return v; }
uint32_t x_verif_regex_len(void) { return rx_len; }
/* ---- C12 lock-discipline obligations (inserted by vf/lockinst.py at the entry of functions that touch shared state) */
uint32_t x_verif_lock_depth(void) { return (uint32_t)__vf_lock_depth; }
void x___vf_lockreq_always(P t) { VF_ASSERT(__vf_lock_depth > 0, "VA:C12.shared_state_accessed_without_the_lock"); }
void x___vf_lockreq_monitor(P t) { VF_ASSERT(__vf_lock_depth > 0, "VA:C12.shared_state_accessed_without_the_lock"); }
void x___vf_lockreq_linked(P t) {          /* list_elem {vptr, next, prev}: unlinking a linked element rewrites its neighbours */
  P next = *(P*)(t + 8);
  if (next != t) VF_ASSERT(__vf_lock_depth > 0, "VA:C12.linked_element_unlinked_without_the_lock");
}
#ifdef __CPROVER__
#define VF_OBJSIZE(p) __CPROVER_OBJECT_SIZE(p)
#else
#include <malloc.h>
#define VF_OBJSIZE(p) malloc_usable_size(p)
#endif
void x___vf_lockreq_limits(P t) {          /* sequence_handler<N>, N>=1: base (32 bytes) + handles; handle 0 linked => visible through its sequence */
  if (VF_OBJSIZE(t) > 40) {
    P h0 = t + 32;
    P next = *(P*)(h0 + 8);
    if (next != h0) VF_ASSERT(__vf_lock_depth > 0, "VA:C12.limits_written_without_the_lock_while_registered_in_a_sequence");
  }
}
void f_harness(void);
int main(int argc, char **argv) {
#ifndef __CPROVER__
  const char *s = getenv("VERIF_REPLAY_VALUES");
  replay_vals = calloc(4096, 8);
  while (s && *s) { replay_vals[replay_n++] = strtoull(s, (char**)&s, 10); if (*s == ',') ++s; }
#endif
  f_harness();
#ifdef __CPROVER__
  __CPROVER_assert(!__vf_exc_pending, "MODEL no exception escapes the harness");
  __CPROVER_assert(__vf_lock_depth == 0, "MODEL lock released at harness exit");
#else
  if (__vf_exc_pending) { printf("ASSERTION FAILED: escaping exception\n"); return 1; }
  printf("DONE\n");
#endif
  return 0;
}
