// native.cpp -- harness interface for the native build (real headers, real libstdc++, no model).
// Nondeterministic values are replayed, in call order, from VERIF_REPLAY_VALUES (comma separated).
#include <cstdio>
#include <cstdlib>
#include <cstring>
#include <vector>
extern "C" void harness(void);
static std::vector<unsigned long> vals; static size_t pos;
static unsigned long nextv() { return pos < vals.size() ? vals[pos++] : 0; }
extern "C" {
unsigned verif_nondet_uint(void) { return (unsigned)nextv(); }
unsigned long verif_nondet_ulong(void) { return nextv(); }
unsigned char verif_nondet_uchar(void) { return (unsigned char)nextv(); }
void verif_assume(int c) { if (!c) { std::printf("ASSUMPTION-VIOLATED\n"); std::fflush(stdout); std::_Exit(3); } }
void verif_assert(int c, char const *id) { if (!c) { std::printf("ASSERTION FAILED: %s\n", id); std::fflush(stdout); std::_Exit(1); } }
void verif_reach(void) { std::printf("REACHED\n"); }
int verif_str_eq(char const *a, char const *b) { return a == b || (a && b && std::strcmp(a, b) == 0); }
int verif_msg_has(char const *hay, char const *needle) { return hay && needle && std::strstr(hay, needle) != nullptr; }
}
int main()
{
  const char *s = std::getenv("VERIF_REPLAY_VALUES");
  while (s && *s) { char *e; vals.push_back(std::strtoull(s, &e, 10)); s = e; if (*s == ',') ++s; }
  try { harness(); }
  catch (...) { std::printf("ASSERTION FAILED: escaping exception\n"); return 1; }
  std::printf("DONE\n");
  return 0;
}
