// native.cpp -- harness interface for the native build (real headers, real libstdc++, no model).
// Nondeterministic values are replayed, in call order, from VERIF_REPLAY_VALUES (comma separated).
#ifdef VF_SCHED
#ifndef _GNU_SOURCE
#define _GNU_SOURCE
#endif
#include <dlfcn.h>
#include <pthread.h>
#endif
#include <cstdio>
#include <cstdlib>
#include <cstring>
#include <string>
#include <vector>
#include <sstream>
extern "C" void harness(void);
static std::vector<unsigned long> vals; static size_t pos;
static unsigned long nextv() { return pos < vals.size() ? vals[pos++] : 0; }
static std::vector<std::string> ws; static std::vector<unsigned long> wn;
static size_t count_str(std::string const &h, std::string const &n)
{ if (n.empty()) return 0; size_t c = 0, p = 0; while ((p = h.find(n, p)) != std::string::npos) { ++c; p += n.size(); } return c; }
static bool isd(char c) { return c >= '0' && c <= '9'; }
static size_t find_num(std::string const &h, unsigned long v, size_t from, size_t *cnt)
{
  std::string a = std::to_string(v), b = std::to_string((long)v);
  size_t first = std::string::npos, c = 0;
  for (std::string const &n : {a, b})
  {
    size_t p = from;
    while ((p = h.find(n, p)) != std::string::npos)
    {
      bool lb = p == 0 || !isd(h[p - 1]);
      bool rb = p + n.size() >= h.size() || !isd(h[p + n.size()]);
      if (lb && rb) { ++c; if (p < first) first = p; }
      p += n.size();
    }
    if (a == b) break;
  }
  if (cnt) *cnt = c;
  return first;
}
extern "C" {
unsigned verif_nondet_uint(void) { return (unsigned)nextv(); }
unsigned long verif_nondet_ulong(void) { return nextv(); }
unsigned char verif_nondet_uchar(void) { return (unsigned char)nextv(); }
void verif_assume(int c) { if (!c) { std::printf("ASSUMPTION-VIOLATED\n"); std::fflush(stdout); std::_Exit(3); } }
void verif_assert(int c, char const *id) { if (!c) { std::printf("ASSERTION FAILED: %s\n", id); std::fflush(stdout); std::_Exit(1); } }
unsigned verif_lock_depth(void) { return 0; }
#ifdef VF_SCHED
// schedule points for C12/sched.cpp: interpose on the recursive mutex trompeloeil uses (the native run is single-threaded;
// other mutexes -- libgcc's unwinder, libstdc++ internals -- are ordinary ones and are passed through untouched)
void verif_on_acquire(void);
static int nat_depth;
int pthread_mutex_lock(pthread_mutex_t *m)
{
  static int (*real)(pthread_mutex_t *) = (int (*)(pthread_mutex_t *))dlsym(RTLD_NEXT, "pthread_mutex_lock");
  if ((m->__data.__kind & 127) == PTHREAD_MUTEX_RECURSIVE_NP) { if (nat_depth == 0) verif_on_acquire(); ++nat_depth; }
  return real(m);
}
int pthread_mutex_unlock(pthread_mutex_t *m)
{
  static int (*real)(pthread_mutex_t *) = (int (*)(pthread_mutex_t *))dlsym(RTLD_NEXT, "pthread_mutex_unlock");
  if ((m->__data.__kind & 127) == PTHREAD_MUTEX_RECURSIVE_NP) --nat_depth;
  return real(m);
}
#endif
void verif_reach(void) { std::printf("REACHED\n"); }
int verif_str_eq(char const *a, char const *b) { return a == b || (a && b && std::strcmp(a, b) == 0); }
int verif_msg_has(char const *hay, char const *needle) { return hay && needle && std::strstr(hay, needle) != nullptr; }
int verif_str_eq_lit(char const *a, char const *b) { return a == b || (a && b && std::strcmp(a, b) == 0); }
int verif_msg_starts(char const *hay, char const *lit) { return std::strncmp(hay, lit, std::strlen(lit)) == 0; }
unsigned verif_watch_str(char const *s) { ws.push_back(s); return (unsigned)ws.size() - 1; }
unsigned verif_watch_num(unsigned long v) { wn.push_back(v); return (unsigned)wn.size() - 1; }
unsigned verif_msg_cnt(char const *msg, unsigned i) { return (unsigned)count_str(msg, ws[i]); }
unsigned verif_msg_ncnt(char const *msg, unsigned i) { size_t c; find_num(msg, wn[i], 0, &c); return (unsigned)c; }
int verif_msg_before(char const *msg, unsigned i, unsigned j)
{ std::string h(msg); size_t a = h.find(ws[i]), b = h.find(ws[j]); return a != std::string::npos && b != std::string::npos && a < b; }
int verif_msg_nbefore(char const *msg, unsigned i, unsigned j)
{ std::string h(msg); size_t a = find_num(h, wn[i], 0, nullptr), b = find_num(h, wn[j], 0, nullptr); return a != std::string::npos && b != std::string::npos && a < b; }
int verif_msg_sbefore_n(char const *msg, unsigned i, unsigned j)
{ std::string h(msg); size_t a = h.find(ws[i]), b = find_num(h, wn[j], 0, nullptr); return a != std::string::npos && b != std::string::npos && a < b; }
// streams owned by the harness: os is a std::ostringstream*
void verif_stream_set(void *os, unsigned long width, unsigned flags, unsigned char fill)
{ auto *s = static_cast<std::ostringstream *>(os); s->width((std::streamsize)width); s->flags((std::ios_base::fmtflags)flags); s->fill((char)fill); }
unsigned long verif_stream_width(void *os) { return (unsigned long)static_cast<std::ostringstream *>(os)->width(); }
unsigned verif_stream_flags(void *os) { return (unsigned)static_cast<std::ostringstream *>(os)->flags(); }
unsigned verif_stream_fill(void *os) { return (unsigned char)static_cast<std::ostringstream *>(os)->fill(); }
unsigned verif_stream_cnt(void *os, unsigned i) { return (unsigned)count_str(static_cast<std::ostringstream *>(os)->str(), ws[i]); }
unsigned verif_stream_ncnt(void *os, unsigned i) { size_t c; find_num(static_cast<std::ostringstream *>(os)->str(), wn[i], 0, &c); return (unsigned)c; }
unsigned verif_stream_nl(void *os) { return (unsigned)count_str(static_cast<std::ostringstream *>(os)->str(), "\n"); }
int verif_stream_before(void *os, unsigned i, unsigned j)
{ std::string h = static_cast<std::ostringstream *>(os)->str(); size_t a = h.find(ws[i]), b = h.find(ws[j]); return a != std::string::npos && b != std::string::npos && a < b; }
// text of the stream for native-only exact comparison (the model cannot provide text)
char const *verif_stream_text(void *os) { static std::string keep; keep = static_cast<std::ostringstream *>(os)->str(); return keep.c_str(); }
}
int main()
{
  const char *s = std::getenv("VERIF_REPLAY_VALUES");
  while (s && *s) { char *e; vals.push_back(std::strtoull(s, &e, 10)); s = e; if (*s == ',') ++s; }
  try { harness(); }
  catch (...) { std::printf("ASSERTION FAILED: escaping exception\n"); return 1; }
  std::printf("DONE\n");
  return 0;
}
