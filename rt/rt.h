/* rt.h -- runtime model for the IR-derived C (see DESIGN.md section 4). Included by generated code. */
#ifndef VF_RT_H
#define VF_RT_H
#include <stdint.h>
#include <stddef.h>
#include <stdlib.h>
typedef unsigned char* P;
typedef void (*FP)(void);
/* LLVM bitcast between an integer and a floating-point value of the same width: same bits, other interpretation */
static inline double vf_bits_double(uint64_t b) { union { uint64_t i; double d; } u; u.i = b; return u.d; }
static inline uint64_t vf_bits_uint64_t(double d) { union { uint64_t i; double d; } u; u.d = d; return u.i; }
static inline float vf_bits_float(uint32_t b) { union { uint32_t i; float f; } u; u.i = b; return u.f; }
static inline uint32_t vf_bits_uint32_t(float f) { union { uint32_t i; float f; } u; u.f = f; return u.i; }
#ifdef __CPROVER__
#define __vf_assume_nonnull(p) __CPROVER_assume((p)!=0)
#define VF_ASSERT(c, id) __CPROVER_assert((c), id)
#define VF_REACH() __CPROVER_assert(0, "WITNESS reach")
#define VF_FAIL(msg) do { __CPROVER_assert(0, msg); __CPROVER_assume(0); } while (0)
#else
#include <stdio.h>
#define __vf_assume_nonnull(p) ((void)0)
void __vf_assert_fail(const char *id);
void __vf_reached(void);
#define VF_ASSERT(c, id) do { if (!(c)) __vf_assert_fail(id); } while (0)
#define VF_REACH() __vf_reached()
#define VF_FAIL(msg) do { fprintf(stderr, "MODEL-FAIL: %s\n", msg); exit(4); } while (0)
#endif
extern int __vf_exc_pending; extern P __vf_exc_ptr;
extern int __vf_lock_depth;
int __vf_exc_match(P catch_ti);
uint32_t __vf_typeid(P ti);
void __vf_unreachable(void);
void __vf_abort(void);
void __vf_badcall(void);
void __vf_memcpy(P d, P s, uint64_t n);
void __vf_memset(P d, uint8_t c, uint64_t n);
void __vf_access(void *p, int is_write);
#endif
